#!/bin/sh
# tools/w3.sh <PROP> <K> [extra checks...]  -- evaluates /tmp/seed3/<PROP>/patchK.diff with demoK.py
P=$1; K=$2; shift; shift
d=/tmp/seed3/$P
sh /verif/tools/seedtest.sh $d/patch$K.diff $d/demo$K.py -- $P "$@"
