#!/bin/sh
# tools/final.sh: evidence from the unchanged /repo, generated tables, MANIFEST; run when /repo is clean
cd /verif || exit 2
git -C /repo diff --quiet || { echo "REPO DIRTY"; exit 2; }
rc=0
for i in 01 02 03 04 05 06 07 08 09 10 11 12 13 14 15 16 17 18 19 20; do
  ./check C$i --tier quick > /dev/shm/final_C$i.log 2>&1; r=$?
  echo "C$i rc=$r $(grep -E '^C[0-9]+ quick' /dev/shm/final_C$i.log | cut -c1-170)"
  [ $r -ne 0 ] && rc=1
  grep -c '^VIOLATION' /dev/shm/final_C$i.log | grep -v '^0$' && rc=1
done
python3 tools/seedtable.py --write
python3 tools/overview.py --write
python3 tools_manifest.py
python3-vt - <<'PY'
import json, jsonschema, glob
jsonschema.validate(json.load(open('/verif/MANIFEST.json')), json.load(open('/root/.vp/MANIFEST.schema.json')))
es=json.load(open('/root/.vp/EVIDENCE.schema.json'))
for f in sorted(glob.glob('/verif/evidence/*.json')):
    jsonschema.validate(json.load(open(f)), es)
print('manifest + 20 evidence files valid')
PY
exit $rc
