#!/usr/bin/env python3
"""tools/keepwave.py <wave-dir> <PROP> <K> <seed-id> <checks,comma> "<needs>" [patch-override]
Rebases the agent's patch onto /repo HEAD (scratch worktree, 3-way if needed), stores
patch/demo/notes under /verif/seeded/<seed-id>/, then confirms on /repo itself with
tools/seedtest.sh (pinned suite, demo clean/patched, quick checks) and writes meta.json."""
import json, os, re, shutil, subprocess, sys
wave, prop, k, sid, checks, needs = sys.argv[1:7]
override = sys.argv[7] if len(sys.argv) > 7 else None
src = os.path.join(wave, prop)
dst = '/verif/seeded/%s' % sid
os.makedirs(dst, exist_ok=True)
w = '/dev/shm/kw-%d' % os.getpid()
subprocess.check_call(['git', '-C', '/repo', 'worktree', 'add', '-q', '--detach', w, 'HEAD'])
try:
    patch = override or os.path.join(src, 'patch%s.diff' % k)
    how = 'applies to HEAD as delivered'
    if subprocess.call(['git', 'apply', patch], cwd=w, stderr=subprocess.DEVNULL) != 0:
        subprocess.check_call(['git', 'apply', '-3', patch], cwd=w)
        how = 'rebased onto the repaired tree with git apply -3'
    if override:
        how = 'mechanism re-implemented by hand on the repaired tree (the function it touched was rewritten by a fix)'
    # (new files the change adds must be part of the stored patch)
    subprocess.check_call(['git', 'add', '-A', '-N', '.'], cwd=w)
    diff = subprocess.check_output(['git', 'diff', 'HEAD'], cwd=w)
    open(os.path.join(dst, 'patch.diff'), 'wb').write(diff)
finally:
    subprocess.call(['git', '-C', '/repo', 'worktree', 'remove', '--force', w])
shutil.copy(os.path.join(src, 'demo%s.py' % k), os.path.join(dst, 'demo.py'))
n = os.path.join(src, 'notes%s.md' % k)
if os.path.exists(n):
    shutil.copy(n, os.path.join(dst, 'notes.md'))
cl = [c for c in checks.split(',') if c]
out = subprocess.run(['sh', '/verif/tools/seedtest.sh', os.path.join(dst, 'patch.diff'), os.path.join(dst, 'demo.py'), '--'] + cl,
                     stdout=subprocess.PIPE, stderr=subprocess.STDOUT).stdout.decode()
out = '\n'.join(l for l in out.splitlines() if 'conda' not in l)
print(out)
ok_clean = 'demo on clean tree: exit 0' in out
ok_patched = 'demo on patched tree: exit 1' in out
suite = re.search(r'(\d+) passed', out)
caught = [c for c in cl if re.search(r'check %s: violations=[1-9]' % c, out)]
meta = {
    'breaks_property': prop,
    'wave': int(re.sub(r'\D', '', os.path.basename(wave.rstrip('/'))) or 0),
    'origin': 'independent sub-agent given only the property text and a scratch worktree (%s)' % how,
    'needs_to_manifest': needs,
    'caught_by_quick_checks': caught,
    'checks_run': cl,
    'confirmed': {'pinned_suite_passed': int(suite.group(1)) if suite else None,
                  'demo_clean_exit_0': ok_clean, 'demo_patched_exit_1': ok_patched,
                  'how': 'tools/seedtest.sh: patch applied to /repo, pinned suite, demo on clean and patched tree, quick checks; /repo reverted afterwards'},
}
json.dump(meta, open(os.path.join(dst, 'meta.json'), 'w'), indent=1)
print('KEPT' if (ok_clean and ok_patched and suite and suite.group(1) == '42' and caught) else 'PROBLEM', sid, caught)
