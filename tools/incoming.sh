#!/bin/sh
# tools/incoming.sh <wave-dir> <wave-name>: copies what the sub-agents delivered so far
# (patchK.diff, demoK.py, notesK.md) to /verif/seeded/_incoming/<wave-name>/<PROP>/ so that an
# interruption cannot lose it (wave 7 was lost that way).  Not yet confirmed changes.
W=$1; N=$2
for d in $W/C*/deliver; do
  p=$(basename $(dirname $d))
  ls $d/* >/dev/null 2>&1 || continue
  mkdir -p /verif/seeded/_incoming/$N/$p
  cp $d/*.diff $d/*.py $d/*.md /verif/seeded/_incoming/$N/$p/ 2>/dev/null
done
ls /verif/seeded/_incoming/$N
