#!/usr/bin/env python3
"""tools/keepseed.py <PROP> <k> <seed-id> "<needs>" "<caught-by checks, comma sep>" ["<ran>"]
Copies /tmp/seed/<PROP>/{patchK.diff,demoK.py,notesK.md} to /verif/seeded/<seed-id>/."""
import json, os, shutil, sys
prop, k, sid, needs, caught = sys.argv[1:6]
ran = sys.argv[6] if len(sys.argv) > 6 else ''
src = '/tmp/seed/%s' % prop
dst = '/verif/seeded/%s' % sid
os.makedirs(dst, exist_ok=True)
shutil.copy(os.environ.get('PATCH') or '%s/patch%s.diff' % (src, k), dst + '/patch.diff')
shutil.copy('%s/demo%s.py' % (src, k), dst + '/demo.py')
if os.path.exists('%s/notes%s.md' % (src, k)):
    shutil.copy('%s/notes%s.md' % (src, k), dst + '/notes.md')
meta = {
    'breaks_property': prop,
    'origin': 'independent sub-agent given only the property text and a scratch worktree',
    'needs_to_manifest': needs,
    'caught_by_quick_checks': [c for c in caught.split(',') if c],
    'confirmed': ran or ('applied to /repo with tools/seedtest.sh: pinned 42-test suite still passes (42 passed), '
                         'demo.py exits 0 on the clean tree and 1 on the patched tree, listed checks print VIOLATION; '
                         '/repo reverted afterwards'),
}
json.dump(meta, open(dst + '/meta.json', 'w'), indent=1)
print('kept', dst)
