#!/usr/bin/env python3
"""Regenerate the DESIGN.md §4 overview table from /verif/evidence/*.json.

    python3 tools/overview.py [--write]
"""
import json, os, re, sys
ROOT = os.path.dirname(os.path.dirname(os.path.abspath(__file__)))
sys.path.insert(0, os.path.join(ROOT, 'lib'))
from vt import manifest_table as MT

def fmt(n):
    return f'{n:,}'.replace(',', ' ') if isinstance(n, int) else str(n)

rows = ['| id | level | engine | quick: cases · evaluations · distinct outcomes · wall |',
        '|---|---|---|---|']
byid = {c['id']: c for c in MT.CHECKS}
for i in range(1, 21):
    pid = 'C%02d' % i
    e = json.load(open(os.path.join(ROOT, 'evidence', pid + '.json')))
    cov = e['coverage']
    extra = ''
    cnt = cov.get('counters') or {}
    for k in ('schedules', 'states', 'transitions'):
        if k in cnt:
            extra += f' · {fmt(cnt[k])} {k}'
    rows.append('| %s | %s | %s | %s cases · %s evaluations · %s outcomes%s · %s s |' % (
        pid, e['level'], byid[pid]['engine'], fmt(cov.get('cases')),
        fmt(cov.get('evaluations')), fmt(cov.get('distinct_outcomes')), extra,
        round(e['wall_s'])))
table = '\n'.join(rows)
if '--write' in sys.argv:
    p = os.path.join(ROOT, 'DESIGN.md')
    s = open(p).read()
    s2 = re.sub(r'<!-- OVERVIEW:BEGIN -->.*?<!-- OVERVIEW:END -->',
                '<!-- OVERVIEW:BEGIN -->\n' + table + '\n<!-- OVERVIEW:END -->', s, flags=re.S)
    open(p, 'w').write(s2)
else:
    print(table)
