#!/bin/sh
# tools/seedtry.sh <patch> <demo|-> <check ids...>
# Triage of a seeded change WITHOUT touching /repo: a scratch worktree of /repo's HEAD
# under /dev/shm gets the patch, the checks run against it through VT_REPO.  (The
# confirmation that counts is tools/seedtest.sh, which applies the patch to /repo.)
patch="$1"; demo="$2"; shift; shift
w=/dev/shm/sr-$$
git -C /repo worktree add -q --detach $w HEAD || exit 2
trap 'git -C /repo worktree remove --force '$w' 2>/dev/null; rm -rf '$w EXIT INT TERM
cd $w
if ! git apply "$patch" 2>/dev/null; then
  if git apply -3 "$patch" 2>/dev/null; then echo "patch applied with 3-way merge"; else echo "PATCH DOES NOT APPLY"; exit 2; fi
fi
if [ "$demo" != "-" ]; then
  VT_REPO_SRC=$w/src PYTHONPATH=/verif/boot PYTHONWARNINGS=ignore::UserWarning timeout 300 /venv/bin/python "$demo" >/dev/shm/sr-$$.demo.log 2>&1
  echo "demo on patched tree: exit $? (want 1)"
fi
cd /verif
for c in "$@"; do
  VT_REPO=$w ./check "$c" --tier ${TIER:-quick} 2>&1 | grep -v Warning > /dev/shm/sr-$$.$c.log
  nv=$(grep -c '^VIOLATION' /dev/shm/sr-$$.$c.log)
  grep -m1 -A3 '^HARNESS-ERROR' /dev/shm/sr-$$.$c.log | cut -c1-300
  echo "check $c: violations=$nv  $(grep -m1 -A1 '^VIOLATION' /dev/shm/sr-$$.$c.log | tail -1 | cut -c1-200)  | $(grep -E "^$c (quick|thorough)" /dev/shm/sr-$$.$c.log | cut -c1-160)"
done
rm -f /dev/shm/sr-$$.*
