#!/bin/sh
# tools/tri.sh <PROP> <K> <checks...>   (wave dir from $WAVE, default /tmp/seed3)
P=$1; K=$2; shift; shift
W=${WAVE:-/tmp/seed3}
out=$(/verif/tools/seedtry.sh $W/$P/patch$K.diff $W/$P/demo$K.py "$@" 2>&1 | grep -v Warn)
echo "== $P-$K
$out"
