#!/bin/sh
# tools/tri.sh <PROP> <K> <checks...>   (wave dir from $WAVE, default /tmp/seed3)
P=$1; K=$2; shift; shift
W=${WAVE:-/tmp/seed3}
D=$W/$P; [ -d $D/deliver ] && D=$D/deliver
out=$(/verif/tools/seedtry.sh $D/patch$K.diff $D/demo$K.py "$@" 2>&1 | grep -v Warn)
echo "== $P-$K
$out"
