#!/usr/bin/env python3
"""Prints the markdown tables of DESIGN.md §9 from seeded/*/meta.json and
seeded/first_triage.json."""
import glob, json, os
ft = json.load(open('/verif/seeded/first_triage.json'))
first = {}
for w in ft:
    if w.startswith('_'):
        continue
    for s in ft[w]['caught']:
        first[s] = 'caught'
    for s, o in ft[w]['missed'].items():
        first[s] = 'missed' + (' (%s)' % o if o else '')
import io, sys
out = io.StringIO()
_print = print


def print(*a):
    _print(*a, file=out)


for wave in (3, 4, 5, 6, 7, 8, 9, 10):
    rows = []
    for d in sorted(glob.glob('/verif/seeded/C*-*')):
        if not os.path.exists(os.path.join(d, 'meta.json')):
            continue
        m = json.load(open(os.path.join(d, 'meta.json')))
        if m.get('wave') != wave:
            continue
        sid = os.path.basename(d)
        rows.append('| %s | %s | %s | %s |' % (sid, m['needs_to_manifest'].replace('|', '\\|'), first.get(sid, '?'), ', '.join(m['caught_by_quick_checks'])))
    if rows:
        print('\n#### Wave %d\n' % wave)
        print('| seed | what it needs to manifest | own quick check at first contact | caught now by |')
        print('|---|---|---|---|')
        print('\n'.join(rows))

text = out.getvalue()
if '--write' in sys.argv:
    import re
    p = '/verif/DESIGN.md'
    d = open(p).read()
    d = re.sub(r'<!-- SEEDTABLE:BEGIN -->.*<!-- SEEDTABLE:END -->',
               lambda m: '<!-- SEEDTABLE:BEGIN -->\n' + text + '\n<!-- SEEDTABLE:END -->', d, flags=re.S)
    open(p, 'w').write(d)
    _print('DESIGN.md updated')
else:
    _print(text)
