#!/usr/bin/env python3
"""Prints the markdown tables of DESIGN.md §9 from seeded/*/meta.json and
seeded/first_triage.json."""
import glob, json, os
ft = json.load(open('/verif/seeded/first_triage.json'))
first = {}
for w in ft:
    if w.startswith('_'):
        continue
    for s in ft[w]['caught']:
        first[s] = 'caught'
    for s, o in ft[w]['missed'].items():
        first[s] = 'missed' + (' (%s)' % o if o else '')
for wave in (3, 4, 5, 6):
    rows = []
    for d in sorted(glob.glob('/verif/seeded/C*-*')):
        m = json.load(open(os.path.join(d, 'meta.json')))
        if m.get('wave') != wave:
            continue
        sid = os.path.basename(d)
        rows.append('| %s | %s | %s | %s |' % (sid, m['needs_to_manifest'].replace('|', '\\|'), first.get(sid, '?'), ', '.join(m['caught_by_quick_checks'])))
    if rows:
        print('\n#### Wave %d\n' % wave)
        print('| seed | what it needs to manifest | own quick check at first contact | caught now by |')
        print('|---|---|---|---|')
        print('\n'.join(rows))
