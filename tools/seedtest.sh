#!/bin/sh
# tools/seedtest.sh <dir-with-patch.diff+demo.py | patch file> [demo.py] -- <check ids...>
# Applies a seeded change to /repo, confirms the pinned suite still passes and the
# demonstration fails, runs the given quick checks, and ALWAYS reverts /repo.
patch="$1"; shift
demo=""
if [ "$1" != "--" ]; then demo="$1"; shift; fi
shift
cd /repo || exit 2
if ! git diff --quiet; then echo "REPO DIRTY"; exit 2; fi
trap 'git -C /repo checkout -- . ; git -C /repo clean -fdq src' EXIT INT TERM
if [ -n "$demo" ]; then
  VT_REPO_SRC=/repo/src PYTHONPATH=/verif/boot PYTHONWARNINGS=ignore::UserWarning timeout 300 /venv/bin/python "$demo" >/dev/shm/seed_demo_clean.log 2>&1
  echo "demo on clean tree: exit $? (want 0)"
fi
git apply "$patch" || { echo "PATCH DOES NOT APPLY"; exit 2; }
if [ -z "$SKIP_SUITE" ]; then
/venv/bin/python -m pytest -q -p no:cacheprovider --timeout=900 --continue-on-collection-errors 2>&1 | tail -1
fi
if [ -n "$demo" ]; then
  VT_REPO_SRC=/repo/src PYTHONPATH=/verif/boot PYTHONWARNINGS=ignore::UserWarning timeout 300 /venv/bin/python "$demo" >/dev/shm/seed_demo_patched.log 2>&1
  echo "demo on patched tree: exit $? (want 1)"
fi
cd /verif
for c in "$@"; do
  ./check "$c" --tier quick 2>&1 | grep -v Warning > /dev/shm/seed_check_$c.log
  rc=$?
  nv=$(grep -c '^VIOLATION' /dev/shm/seed_check_$c.log)
  echo "check $c: violations=$nv  $(grep -m1 -A1 '^VIOLATION' /dev/shm/seed_check_$c.log | tail -1 | cut -c1-160)  | $(tail -2 /dev/shm/seed_check_$c.log | head -1 | cut -c1-200)"
done
