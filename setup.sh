#!/bin/sh
# Nothing to build: pure Python driving /repo's working tree.  Self-check only.
set -e
here=$(cd "$(dirname "$0")" && pwd)
cd "$here"
mkdir -p evidence replays
PYTHONPATH="$here/boot:$here/lib" PYTHONWARNINGS="ignore::UserWarning" /venv/bin/python - <<'PY'
import zope.testrunner.runner as r, zope.interface, sys
assert r.__file__.startswith('/repo/src/'), r.__file__
print('setup ok:', r.__file__, sys.version.split()[0])
PY
