#!/usr/bin/env python3
"""Regenerates MANIFEST.json from the table below (kept in one place so the
file stays valid)."""
import json, os, sys
HERE = os.path.dirname(os.path.abspath(__file__))
sys.path.insert(0, os.path.join(HERE, 'lib'))
from vt.manifest_table import CHECKS, NOT_APPLICABLE, ENGINES, NOTES  # noqa

import re
DESIGN = open(os.path.join(HERE, 'DESIGN.md')).read()


def extended(pid):
    """The "*Added after waves ...*" paragraphs of DESIGN.md §4 for pid (the
    families the check gained after seeded-change waves), as one sentence."""
    m = re.search(r'### %s — [^\n]*\n(.*?)(?=\n### |\n-{20,})' % pid, DESIGN, re.S)
    out = []
    for ln in (m.group(1).splitlines() if m else ()):
        mm = re.match(r'\*Added after waves ([^:]*):\* (.*)', ln)
        if mm:
            out.append(mm.group(2).strip())
    return ' '.join(out)


checks = []
for c in CHECKS:
    pid = c['id']
    ext = extended(pid)
    if ext:
        c = dict(c, text=c['text'] + ' Families added after the seeded-change waves (DESIGN.md §4 %s, §9): %s' % (pid, ext))
    checks.append({
        'property_id': pid,
        'quick_cmd': './check %s --tier quick' % pid,
        'thorough_cmd': './check %s --tier thorough' % pid,
        'evidence_file': 'evidence/%s.json' % pid,
        'replay_cmd_template': './check %s --replay {path}' % pid,
        'engine': c['engine'],
        'level_claimed': {'category': c['level'], 'text': c['text'],
                          'design_ref': c['design_ref']},
        'level_note': c['note'],
        'technique': c['technique'],
    })
m = {
    'version': 1,
    'setup_cmd': './setup.sh',
    'hooks': {
        'guard': 'ZOPE_TESTRUNNER_VERIF',
        'enable': 'no hooks exist: the checks drive the unmodified working tree of /repo (editable install, /repo/src first on sys.path); the guard name is reserved only',
        'baseline_off_cmd': 'cd /repo && /venv/bin/python -m pytest -ra -q -p no:cacheprovider --timeout=900 --continue-on-collection-errors',
        'source_commits': [],
        'add_only': True,
    },
    'engines': ENGINES,
    'checks': checks,
    'not_applicable': NOT_APPLICABLE,
    'notes': NOTES,
}
with open(os.path.join(HERE, 'MANIFEST.json'), 'w') as f:
    json.dump(m, f, indent=1)
print('wrote MANIFEST.json with %d checks' % len(checks))
