"""Trace monitors (oracles over the event stream of a run)."""
import re

LINE_RE = re.compile(
    rb'^  (Set up|Tear down) (\S+) ?(in \d+\.\d{3} seconds\.|\.\.\. not supported)?',
    re.M)


class SpecView:
    """Facts derived from the world spec only (never from runner output)."""

    def __init__(self, spec):
        self.spec = spec
        self.mod = spec.get('mod') or 'vtw.tests'
        self.by = {L['n']: L for L in spec.get('layers') or ()}
        self.closure = {}
        for n in self.by:
            self.closure[n] = self._closure(n)
        self.tests = {t['n']: t for t in spec['tests']}

    def _closure(self, n):
        out = set()
        st = [n]
        while st:
            x = st.pop()
            if x in out:
                continue
            out.add(x)
            st.extend(self.by[x].get('b') or ())
        return frozenset(out)

    def has_hook(self, n, hook):
        L = self.by[n]
        if hook in (L.get('h') or ()):
            return True
        if L.get('k', 'c') == 'c':
            return any(self.has_hook(b, hook) for b in L.get('b') or ())
        return False

    test_layer = None     # optional {tid: layer short name or None} override

    def test_closure(self, tid):
        if self.test_layer is not None:
            lay = self.test_layer[tid]
            return frozenset() if lay is None else self.closure[lay]
        t = self.tests[tid]
        lay = t.get('l')
        if t.get('li') and t['li'].get('l'):
            lay = t['li']['l']
        if lay is None:
            return frozenset()
        return self.closure[lay]

    def short(self, full):
        pre = self.mod + '.'
        if isinstance(full, bytes):
            full = full.decode('utf-8', 'replace')
        return full[len(pre):] if full.startswith(pre) else None


def outputs_by_vpid(res):
    d = {0: res.out_own if res.out_own is not None else res.out}
    for c in res.children or ():
        if c.get('vpid') is not None:
            d[c['vpid']] = c['stdout']
    return d


def merged_layer_events(sv, res):
    """{vpid: [(pos, seq, kind...)]}: hook/test events plus, for every
    (layer, phase) that has no hook, synthetic events from the runner's own
    'Set up' / 'Tear down' lines (the only observable for hook-less layers)."""
    per = {}
    for i, ev in enumerate(res.trace):
        vpid = ev[0]
        pos = ev[-2]
        per.setdefault(vpid, []).append((pos, 1, i, ev[1:-4]))
    for vpid, out in outputs_by_vpid(res).items():
        lst = per.setdefault(vpid, [])
        for m in LINE_RE.finditer(out or b''):
            name = sv.short(m.group(2))
            if name is None or name not in sv.by:
                continue
            phase = 'setUp' if m.group(1) == b'Set up' else 'tearDown'
            if sv.has_hook(name, phase):
                continue
            lst.append((m.start(), 0, 0, ('L', name, phase, '>')))
            lst.append((m.start(), 0, 1, ('L', name, phase, '<')))
    for vpid in per:
        per[vpid].sort(key=lambda x: (x[0], x[1], x[2]))
    return {v: [e[3] for e in lst] for v, lst in per.items()}


def check_layer_stack(sv, res, states=None, transitions=None):
    """C01 monitor.  Returns list of (clause, detail)."""
    viol = []
    merged = merged_layer_events(sv, res)
    for vpid, events in merged.items():
        up = set()
        nie = False
        st = (frozenset(), False)
        for ev in events:
            if ev[0] == 'L':
                _, X, phase, mark = ev[:4]
                if phase == 'setUp':
                    if mark == '>':
                        if nie:
                            viol.append(('setup_after_nie', 'vpid %s: setUp(%s) after a tearDown raised NotImplementedError' % (vpid, X)))
                        if X in up:
                            viol.append(('setup_while_up', 'vpid %s: setUp(%s) while it is set up' % (vpid, X)))
                        missing = set(sv.by[X].get('b') or ()) - up
                        if missing:
                            viol.append(('setup_without_bases', 'vpid %s: setUp(%s) while bases %s are not set up' % (vpid, X, sorted(missing))))
                    elif mark == '<':
                        up.add(X)
                elif phase == 'tearDown':
                    if mark == '>':
                        if X not in up:
                            viol.append(('teardown_not_up', 'vpid %s: tearDown(%s) while it is not set up' % (vpid, X)))
                        derived = [Y for Y in up if Y != X and X in sv.closure[Y]]
                        if derived:
                            viol.append(('teardown_before_derived', 'vpid %s: tearDown(%s) while derived %s still set up' % (vpid, X, sorted(derived))))
                        up.discard(X)
                    elif mark == '!' and ev[4] == 'NIE':
                        nie = True
                else:
                    continue
            elif ev[0] == 't' and ev[2] in ('setUp', 'body'):
                tid = ev[1]
                want = sv.test_closure(tid)
                if nie:
                    viol.append(('test_after_nie', 'vpid %s: test %s runs after a tearDown raised NotImplementedError' % (vpid, tid)))
                if up != want:
                    viol.append(('wrong_stack', 'vpid %s: test %s runs with %s set up, needs exactly %s' % (vpid, tid, sorted(up), sorted(want))))
            else:
                continue
            if states is not None:
                nst = (frozenset(up), nie)
                states.add(nst)
                transitions.add((st, ev[0], ev[2] if ev[0] == 'L' else 'test', nst))
                st = nst
        if up:
            viol.append(('left_set_up', 'vpid %s ends with %s still set up (no tearDown attempt)' % (vpid, sorted(up))))
    return viol


def executed(res, what='body'):
    """[(vpid, test id)] for every test-body event."""
    return [(ev[0], ev[2]) for ev in res.trace if ev[1] == 't' and ev[3] == what]


def linear_extension_ok(sv, seq):
    """Every layer appears after all of its (transitive) bases in seq."""
    seen = set()
    for X in seq:
        for b in sv.closure[X]:
            if b != X and b in seq and b not in seen:
                return False
        seen.add(X)
    return True


def check_test_hooks(sv, res, states=None, transitions=None):
    """C05 monitor: per-test layer hooks bracket every test."""
    viol = []
    per = {}
    for ev in res.trace:
        per.setdefault(ev[0], []).append(ev[1:-4])
    for vpid, events in per.items():
        cur = None
        S = D = phases = None
        depth = {}
        for ev in events:
            if ev[0] == 't':
                tid, what = ev[1], ev[2]
                if what == 'run>':
                    cur = tid
                    S, D, phases = [], [], []
                elif what == 'run<':
                    script = sv.tests[tid]['s']
                    want = [X for X in sv.test_closure(tid)
                            if sv.has_hook(X, 'testSetUp')]
                    wantD = [X for X in sv.test_closure(tid)
                             if sv.has_hook(X, 'testTearDown')]
                    s_layers = [x[1] for x in phases if x[0] == 'S']
                    d_layers = [x[1] for x in phases if x[0] == 'D']
                    started = any(x[0] == 'T' for x in phases) or bool(s_layers)
                    sig = {'script': script}
                    if sorted(d_layers) != sorted(set(d_layers)) or sorted(s_layers) != sorted(set(s_layers)):
                        viol.append(('hook_twice', sig, 'test %s: testSetUp %s testTearDown %s' % (tid, s_layers, d_layers)))
                    if set(s_layers) - set(want) or set(d_layers) - set(wantD):
                        viol.append(('hook_outside_stack', sig, 'test %s (stack %s): testSetUp on %s, testTearDown on %s' % (tid, sorted(sv.test_closure(tid)), s_layers, d_layers)))
                    bal_S = [x for x in s_layers if x in wantD]
                    bal_D = [x for x in d_layers if x in want]
                    if bal_D != bal_S[::-1]:
                        viol.append(('unbalanced_or_not_mirrored', sig, 'test %s: testSetUp order %s, testTearDown order %s (must be the exact reverse)' % (tid, s_layers, d_layers)))
                    if started:
                        if sorted(s_layers) != sorted(want):
                            viol.append(('testSetUp_missing', sig, 'test %s started: testSetUp on %s, expected each of %s once' % (tid, s_layers, sorted(want))))
                        if sorted(d_layers) != sorted(wantD):
                            viol.append(('testTearDown_missing', sig, 'test %s started: testTearDown on %s, expected each of %s once' % (tid, d_layers, sorted(wantD))))
                        if not linear_extension_ok(sv, s_layers):
                            viol.append(('bases_not_first', sig, 'test %s: testSetUp order %s is not bases-first' % (tid, s_layers)))
                        # position relative to the test's own phases
                        idx = {k: [i for i, x in enumerate(phases) if x[0] == k] for k in 'STD'}
                        tpos = [i for i, x in enumerate(phases) if x[0] == 'T']
                        if idx['S'] and tpos and max(idx['S']) > min(tpos):
                            viol.append(('testSetUp_after_test_setUp', sig, 'test %s: phases %s' % (tid, phases)))
                        if idx['D'] and tpos and min(idx['D']) < max(tpos):
                            viol.append(('testTearDown_before_test_tearDown', sig, 'test %s: phases %s' % (tid, phases)))
                    if states is not None:
                        states.add((script, tuple(s_layers), tuple(d_layers)))
                    cur = None
                elif cur is not None and what in ('setUp', 'body', 'tearDown', 'cleanup'):
                    phases.append(('T', what))
            elif ev[0] == 'L' and ev[2] in ('testSetUp', 'testTearDown') and ev[3] == '>':
                X = ev[1]
                k = 'S' if ev[2] == 'testSetUp' else 'D'
                d = depth.get(X, 0) + (1 if k == 'S' else -1)
                depth[X] = d
                if d not in (0, 1) and sv.has_hook(X, 'testSetUp') and sv.has_hook(X, 'testTearDown'):
                    viol.append(('depth', {'k': k}, 'vpid %s: layer %s per-test hook depth becomes %d' % (vpid, X, d)))
                    depth[X] = 0
                if cur is None:
                    viol.append(('hook_outside_test', {'k': k}, 'vpid %s: %s.%s called outside any test' % (vpid, X, ev[2])))
                else:
                    phases.append((k, X))
                if transitions is not None:
                    transitions.add((cur is not None, k, d))
    return viol
