"""Single source for MANIFEST.json (see /verif/tools_manifest.py)."""

ENGINES = [
    {'name': 'sched', 'path': 'lib/vt/sched.py',
     'serves_properties': ['C06', 'C07'],
     'kind_free_text': 'controlled scheduler: real threads under a semaphore '
                       'baton, virtual child processes with finite pipes, '
                       'name substitution in zope.testrunner.runner; used by '
                       'a preemption-bounded stateful DFS'},
    {'name': 'explore', 'path': 'lib/vt/explore.py',
     'serves_properties': ['C01', 'C02', 'C03', 'C04', 'C06', 'C07',
                           'C08', 'C09', 'C14',
                           'C15', 'C17', 'C18', 'C19', 'C20'],
     'kind_free_text': 'bounded exhaustive enumeration driver: shards a finite '
                       'case space over 16 long-lived workers, runs the real '
                       'code on every case, determinism gate, known-finding '
                       'matching, replay artefacts, evidence'},
]

NOTES = ('Every check executes the implementation in /repo/src (working tree) '
         'on every element of a finite, completely enumerated space; see '
         'DESIGN.md.')

CHECKS = [
    {'id': 'C06', 'engine': 'sched', 'level': 'model_checking',
     'design_ref': 'DESIGN.md §3.4, §4 C06',
     'technique': 'stateless-replay / stateful-visited model checking of the '
                  'real resume_tests + spawn_layer_in_subprocess on real '
                  'threads under a baton scheduler with virtual child '
                  'processes: all interleavings up to a preemption bound '
                  '(DFS, partial-order reduction for child/reader steps), '
                  'invariants at every state; plus exhaustive -jN vs '
                  'sequential world runs',
     'text': 'The unmodified parent poll loop, worker threads and stderr '
             'reader threads run against 2 (bound 2) and 3 (bound 0/1; '
             'thorough 4) scripted virtual layer subprocesses for every N in '
             '1..k+1 and the deferred, immediate and keep-alive collectors, '
             'with 8- and 64-byte pipes, a spawn failure and a "only proceeds '
             'once layer X has started" dependency. At every reachable state: '
             'at most N children alive and the printed bytes are a prefix of '
             'the sequential block sequence (keep-alive marks only between '
             'blocks); at every terminal state: output, ran and the '
             'failure/error multisets equal the sequential reference, all '
             'children reaped, no deadlock, no hang, all k! worker finish '
             'orders reached. Outcome worlds are also run with -j1..-j4 at '
             '-v0..2 against their sequential run.',
     'note': 'Scheduling points are the synchronisation and pipe operations '
             'plus sleep; CPython may switch elsewhere, but the code between '
             'points only does single list appends / attribute stores. '
             'Children are virtual (bound to real ones by C07\'s conformance '
             'cases). Preemption bound and k are small.'},
    {'id': 'C19', 'engine': 'explore', 'level': 'exploration',
     'design_ref': 'DESIGN.md §4 C19',
     'technique': 'bounded exhaustive enumeration of thread histories over a '
                  'harness-owned virtual thread table (running idents, '
                  'threading registry, fresh vs recycled ident allocation) '
                  'against the real per-test thread report; real-thread '
                  'conformance subset',
     'text': 'Two-test (thorough: three-test) histories where each test '
             'starts <=2 threads of 8 kinds (threading/_thread, blocked / '
             'finished, touched threading.current_thread(), named to match / '
             'not match --ignore-new-thread), every blocked thread of the '
             'first test is released never / inside the next test before or '
             'after its own threads / between the tests in a layer hook, a '
             'layer hook may start a thread between tests, two threads '
             'pre-exist, and new threads get fresh or recycled idents; the '
             '"left new threads behind" blocks must name exactly the threads '
             'started in that test, still running at its end and not ignored. '
             'A subset is replayed with real threads.',
     'note': 'The thread table the runner inspects is virtual (that is how '
             'ident recycling is enumerated instead of hoped for); real '
             'threads are used for single-thread histories only. One known '
             'finding (recycled ident hides a leak) is listed.'},
    {'id': 'C18', 'engine': 'explore', 'level': 'exploration',
     'design_ref': 'DESIGN.md §4 C18',
     'technique': 'bounded exhaustive enumeration of option subsets x ways '
                  'the test phase ends on the real Runner in-process, '
                  'before/after snapshot of interpreter-global state',
     'text': 'Every subset of size <=3 (thorough: all 256) of the eight '
             'state-changing options (--gc a, --gc a b c, -G flag, --coverage, '
             '--profile cProfile, --buffer, warnings argument, -D with '
             'scripted stdin) is combined with eight endings (all pass, '
             'failures, layer testSetUp / testTearDown raising, '
             'KeyboardInterrupt in a body / in setUp, -x, SystemExit from a '
             'layer setUp); gc thresholds and flags, the traceback formatting '
             'functions, sys.settrace, active trace/profile hooks, '
             'warnings.filters and the identity of sys.stdout/sys.stderr '
             'must be what they were before the run.',
     'note': 'Signal handlers and logging handlers are not in the stated '
             'state (the runner does leave a NullHandler on the root logger '
             'per run; the harness removes it). -D only with scripted '
             '"continue".'},
    {'id': 'C17', 'engine': 'explore', 'level': 'exploration',
     'design_ref': 'DESIGN.md §4 C17',
     'technique': 'exhaustive enumeration of every Unicode code point (block '
                  'runs with bisection to single code points) and of outcome '
                  'kinds on the real runner with --xml; reports parsed with '
                  'expat and compared with spec+trace ground truth',
     'text': 'All 1114112 code points are placed in an exception message and '
             'all BMP code points in a test method name (2048 per run, '
             'bisected on failure so each code point is decided); 18 hostile '
             'strings go into messages, subtest parameters and method names; '
             '16 outcome kinds x --repeat 1/2 and an import error are '
             'reported. Every report file must parse with expat, each suite\'s '
             'tests/errors/failures attributes must equal its element counts, '
             'passing tests appear once per iteration and every bad event is '
             'a testcase under the test\'s own class and name with a failure '
             'or error child.',
     'note': 'doctest/manuel name parsers are only exercised through '
             'unittest cases here; strings are drawn from a finite list '
             '(all single code points, not all strings).'},
    {'id': 'C14', 'engine': 'explore', 'level': 'exploration',
     'design_ref': 'DESIGN.md §4 C14',
     'technique': 'exhaustive small-scope enumeration of directory trees x '
                  'discovery configurations x os.walk listing orders (proxy '
                  'for find.os) with import side effects recorded, against a '
                  'reference predicate written from the statement',
     'text': 'Every combination of <=3 (thorough: 4) root entries out of 19 '
             '(test-named and other files, tests/ in 4 variants, pkg/ in 4 '
             'variants, six directories that must be skipped) is materialised '
             'on tmpfs and discovered by the real runner under 17 '
             'configurations (patterns, duplicate/nested/reversed search '
             'paths, --test-path, --package-path, -m positive/negated/'
             'alternation incl. with --package-path, -s, --ignore_dir) and 3 '
             '(5) directory listing orders; every module logs its import and '
             'the import sequence must equal the sorted, de-duplicated, '
             'filtered reference list - nothing else imported, nothing twice.',
     'note': 'Symlinked directories and --usecompiled discovery are outside '
             'the alphabet; one known finding (module-name collision under '
             'nested search paths) is listed in known_findings.json.'},
    {'id': 'C15', 'engine': 'explore', 'level': 'exploration',
     'design_ref': 'DESIGN.md §4 C15',
     'technique': 'exhaustive small-scope enumeration of directory trees x '
                  'option vectors on tmpfs, real runner run, file-system diff '
                  'against a two-sided (must/may) reference',
     'text': 'Every subset of <=4 (thorough: 6) of 23 menu entries (sources, '
             'orphaned and non-orphaned .pyc/.pyo incl. x.py+x.pyc+x.pyo, '
             'look-alikes .pyc/pyc/X.PYC/x.pyc.bak/w.py.pyc/x.py,cover, '
             '__pycache__, .git, CVS, node_modules, foo-bar, sub package) is '
             'materialised and the real runner run under 10 option vectors '
             '(--path, --test-path, overlapping paths, -k, --usecompiled, '
             '--ignore_dir, and -j2 / resumed children with and without -k); '
             'the tree is diffed by path, size, sha256 and mtime: every '
             'must-delete orphan is gone, nothing outside may-delete is gone, '
             'nothing else changed or appeared.',
     'note': 'Symlinks, case-insensitive file systems and names outside the '
             'menu are not covered.'},
    {'id': 'C03', 'engine': 'explore', 'level': 'exploration',
     'design_ref': 'DESIGN.md §4 C03',
     'technique': 'bounded exhaustive enumeration of declaration-chain worlds '
                  'x filter x repeat/shuffle x execution-mode vectors on the '
                  'real Runner; executed multiset, process and layer-stack '
                  'oracle against a reference selection; listing vs run order',
     'text': 'Worlds of three declaration chains (8-chain menu: nested suites, '
             'layer/level on suites, classes, instances, string names) over '
             'layers L1, L2(L1), L3, with and without a layer that cannot be '
             'torn down, are run under 12 filter vectors x 5 repeat/shuffle '
             'vectors x {sequential, -j2, -j3} and listed with --list-tests; '
             'executed tests must be exactly the reference selection, repeat '
             'times, each in one process under exactly its own layer stack, '
             'the listing must equal the selection per layer in execution '
             'order without running code, and the per-layer order must agree '
             'between sequential, parallel and resumed execution.',
     'note': 'One test module only; multi-module discovery is C14. Children '
             'are in-process real Runners.'},
    {'id': 'C09', 'engine': 'explore', 'level': 'exploration',
     'design_ref': 'DESIGN.md §4 C09',
     'technique': 'exhaustive small-scope enumeration of declaration chains '
                  '(nested suites x layer/level attributes) x option vectors '
                  'through the real discovery+filter pipeline (--list-tests) '
                  'against a reference of the stated rules',
     'text': 'Every chain of <=2 (thorough: 3) nested suites around a test, '
             'each node declaring layer in {none, L1, L2, L1 as string, a '
             'layer whose name the unit-layer regex matches} and level in '
             '{none,-1,0,1,2,3}, the test declaring on its class or instance '
             '(28247 chains; thorough +649728), is listed by the real runner '
             'under 27 option vectors (thorough: all 130 combinations of 13 '
             'level switches and 10 unit/layer switches); the listed '
             'test->layer map must equal nearest-declaration-wins plus the '
             'stated level and unit rules, and listing must run no code.',
     'note': 'Levels outside -1..3 and more than two real layers are outside '
             'the alphabet.'},
    {'id': 'C11', 'engine': 'explore', 'level': 'exploration',
     'design_ref': 'DESIGN.md §4 C11',
     'technique': 'bounded exhaustive enumeration of seeds x layer-size '
                  'vectors x execution modes on the real Runner against an '
                  'independent Fisher-Yates reference; harness-owned clock for '
                  'seedless runs; the real shuffle.py under 5 interpreters',
     'text': 'For 39 layer-size vectors and every seed 0..31 (thorough 0..255) '
             'the per-layer order is taken from --list-tests, a sequential '
             'run, a --layer-filtered run of each layer, a -j2 run and a run '
             'with resumed children; each must be a permutation of its own '
             'layer, equal across modes and equal to the reference; seeds up '
             'to 255 (4095) and extreme seeds in list mode; seedless runs '
             'under a controlled clock must report exactly one seed that '
             'reproduces every process; shuffle.py is executed under CPython '
             '3.9-3.13 and result digests compared with the reference.',
     'note': 'Other interpreters run shuffle.py with a stubbed feature base '
             'class; PyPy is not available.'},
    {'id': 'C10', 'engine': 'explore', 'level': 'exploration',
     'design_ref': 'DESIGN.md §4 C10',
     'technique': 'exhaustive small-scope enumeration of all labelled layer '
                  'DAGs x subsets x input orders on the real order_by_bases / '
                  'ordered_layers, end-to-end header and execution sequences, '
                  'and result digests across PYTHONHASHSEED values',
     'text': 'Every labelled DAG with ordered bases on <=4 named layers (class '
             'and instance kinds, every subset, every input order) and all '
             '487656 labelled DAGs on 5 layers (instance kind; full set and '
             'every 3-subset, two input orders; thorough: all subsets, class '
             'kind too) is ordered by the real function: the result must be a '
             'permutation of the subset, never put a layer before one of its '
             'bases, and not depend on input order. For n<=3 the same holds '
             'through Runner.ordered_layers() with the unit layer first for '
             'every insertion order, the header sequence and the executed '
             'layer sequence of real runs (also when all later layers are '
             'resumed in children) equal it, and digests agree across hash '
             'seeds.',
     'note': 'More than 5 layers are outside the bound; names are single '
             'letters.'},
    {'id': 'C08', 'engine': 'explore', 'level': 'exploration',
     'design_ref': 'DESIGN.md §4 C08',
     'technique': 'exhaustive small-scope enumeration of pattern lists x names '
                  'on the real build_filtering_func against an independent '
                  'algebraic spec, plus end-to-end -t/--layer runs of the real '
                  'Runner (module filtering end-to-end is in C14)',
     'text': 'Every list of <=3 (thorough: 4) patterns over 14 regexes (anchors, '
             'alternations incl. ^a|b, empty, never-matching, character '
             'classes) x {plain, negated} is evaluated on 13 names and '
             'compared with union-of-positives-minus-union-of-negatives in '
             'search mode; every permutation, duplication and one-pattern '
             'extension is checked for order independence and monotonicity; '
             'every list of <=2 (thorough: 3) -t and --layer patterns is run '
             'on a 5-test/3-layer world and the executed set compared with '
             'the spec.',
     'note': 'The regex alphabet is finite; names are non-empty.'},
    {'id': 'C13', 'engine': 'explore', 'level': 'exploration',
     'design_ref': 'DESIGN.md §4 C13',
     'technique': 'bounded exhaustive enumeration of (outcome, write pattern) '
                  'histories on the real Runner with --buffer on/off; token '
                  'search in the captured output + stream identity at every '
                  'trace event',
     'text': 'Every history of <=2 (thorough: 3) tests, each one of 15 outcome '
             'kinds (incl. multi-event tests) x 7 write patterns (stdout '
             'with/without newline, stderr, bytes via .buffer, both, write in '
             'setUp, none) with unique tokens, is run with --buffer on and '
             'off and with the plain, XML-wrapping and colour formatters; '
             'tokens of quiet tests must appear nowhere, tokens of failing '
             'tests exactly once inside that test\'s window after its header, '
             'and sys.stdout/sys.stderr must be the original objects at every '
             'test boundary and after the run (without --buffer: at every '
             'event).',
     'note': 'Subunit formatters cannot be exercised (library absent). '
             'KeyboardInterrupt paths belong to C18.'},
    {'id': 'C12', 'engine': 'explore', 'level': 'exploration',
     'design_ref': 'DESIGN.md §4 C12',
     'technique': 'bounded exhaustive enumeration of outcome placements x '
                  'verbosity x repeat x execution mode on the real Runner; '
                  'printed counts and name lists compared with counts from '
                  'the spec and the trace',
     'text': 'In 6 layer shapes every placement of <=1 (thorough: 2) non-pass '
             'outcomes of 17 kinds, <=1 failing layer hook and an optional '
             'unimportable module is run with -v 0/1/2, --repeat 1/2, '
             'sequentially, with -j2 and with resumed children; every "Ran" '
             'line of every process, Runner.ran, the "Total:" line, the '
             'failure/error lists and the printed "Tests with ..." sections '
             'must equal the ground truth computed from the spec and trace.',
     'note': 'Uses upstream conventions for import errors in per-layer counts '
             'and for Total tests under --repeat. One known finding (skips in '
             'children not totalled) is listed in known_findings.json.'},
    {'id': 'C02', 'engine': 'explore', 'level': 'exploration',
     'design_ref': 'DESIGN.md §4 C02',
     'technique': 'bounded exhaustive enumeration of bad-item / look-alike '
                  'placements x execution modes x child faults on the real '
                  'Runner; verdict compared with ground truth from spec+trace',
     'text': 'Every placement of <=1 (thorough: 2) bad items (failure, error, '
             'unexpected success, failing subtests, two-event test, layer '
             'setUp/tearDown raising, unimportable module) and <=1 look-alike '
             '(skips, xfail, NotImplementedError tearDown, report-like noise '
             'on stdout/stderr/fd 2) in 6 layer shapes is run sequentially, '
             'with -j1/-j2/-j3, with resumed children and with -t/--only-level '
             'filters; additionally every child of every child-bearing world '
             'is made to fail to spawn, die before the report, or deliver a '
             'report cut at each line (thorough: each byte). Runner.failed '
             'must equal the ground truth in every case.',
     'note': 'Children are in-process real Runners; death is modelled by '
             'cutting the byte streams the parent reads (real signals are in '
             'C07). One known finding (header spoofing via fd 2) is listed in '
             'known_findings.json.'},
    {'id': 'C04', 'engine': 'explore', 'level': 'exploration',
     'design_ref': 'DESIGN.md §4 C04',
     'technique': 'bounded exhaustive enumeration of fault placements (test '
                  'phase x exception class x position x layer hook) x option '
                  'vectors on the real Runner, trace + result-list oracle',
     'text': 'In 6 layer shapes every placement of <=1 (thorough: 2) faulty '
             'tests - raising in setUp, body (9 exception classes incl. one '
             'whose __str__ raises), subtests, tearDown, cleanup, two-event '
             'tests, SystemExit - and <=1 failing layer hook is run with '
             '--buffer on/off, -v 0..3 (quick: 0,2), sequentially and with '
             '-j2; the run must return, every other runnable test must run '
             'exactly once, every layer must be torn down, each layer that '
             'ran must have its summary and the failure/error lists must name '
             'exactly the faulty tests and layers.',
     'note': 'KeyboardInterrupt and MemoryError are deliberately not contained '
             'by the runner and are outside the property; post-mortem mode is '
             'not explored.'},
    {'id': 'C16', 'engine': 'explore', 'level': 'exploration',
     'design_ref': 'DESIGN.md §4 C16',
     'technique': 'bounded exhaustive enumeration of first-bad-item positions '
                  'x bad-outcome kinds x option vectors on the real Runner '
                  '(in-process parent and children), trace oracle per process',
     'text': 'For every world of <=3 layers (independent, chained, with unit '
             'layer) with <=2 (thorough: 3) tests each, the first bad item is '
             'placed at every position with every bad-outcome kind (failure, '
             'error, unexpected success, failing/erroring subtests, '
             'setUp/tearDown/cleanup errors, two-event tests, SystemExit) or '
             'is a layer setUp failure at every layer, under -x alone and '
             'with --repeat, --shuffle, -j2 and resumed children; no test may '
             'start after the bad item in that process, no layer may be set '
             'up afterwards in a sequential run, all layers are torn down, '
             'the summary exists and the verdict is failed.',
     'note': 'Children are in-process real Runners (one schedule); post-mortem '
             'mode (-D) is not combined with -x.'},
    {'id': 'C05', 'engine': 'explore', 'level': 'exploration',
     'design_ref': 'DESIGN.md §4 C05',
     'technique': 'bounded exhaustive enumeration of layer graphs x hook '
                  'subsets x outcome sequences on the real Runner, with a '
                  'per-test bracket monitor over the hook trace',
     'text': 'Every DAG of <=3 layers (class and instance), every subset of '
             'layers carrying testSetUp/testTearDown, every single outcome '
             'kind (16 kinds incl. decorator/class skip, skips raised in '
             'setUp/body, xfail, unexpected success, failing subtests, '
             'setUp/tearDown/cleanup errors, two-event tests) and every '
             'sequence of two (thorough: three) outcomes, with --repeat 1/2, '
             'is executed; for each test the testSetUp sequence must be '
             'exactly the hook-bearing closure bases-first before the '
             "test's setUp, testTearDown its exact mirror after tearDown, "
             'depth 0/1 per layer, nothing outside test brackets or stacks.',
     'note': 'Only CPython 3.12.1 (where unittest skips startTest for '
             'decorator-skipped tests); sequences longer than 3 and graphs '
             'beyond 3 layers are outside the bound.'},
    {'id': 'C01', 'engine': 'explore', 'level': 'exploration',
     'design_ref': 'DESIGN.md §4 C01',
     'technique': 'bounded exhaustive enumeration of layer-graph x fault x '
                  'option worlds executed on the real Runner, with a state '
                  'monitor over the set-up/tear-down/test trace of every process',
     'text': 'Every DAG of <=3 (thorough: 4) layers, class and instance kinds, '
             'both namings, every owner subset, every placement of <=2 failing '
             'hooks (setUp raises / tearDown raises / tearDown raises '
             'NotImplementedError), with and without hook-less layers, under '
             '-x, --repeat, --shuffle, --layer and -j N, is run on the real '
             'Runner; a monitor checks the stack invariant at every hook and '
             'test event of every (virtual) process, plus that resumed layers '
             'run in exactly one fresh child. Complete for the bound.',
     'note': 'Children are real Runner instances started in-process with the '
             'argv the parent computed (one schedule); more than 4 layers, '
             'more than 2 simultaneous faults and partial hook sets (setUp '
             'without tearDown) are outside the bound.'},
    {'id': 'C20', 'engine': 'explore', 'level': 'exploration',
     'design_ref': 'DESIGN.md §4 C20',
     'technique': 'exhaustive small-scope enumeration of all digraphs (<=4, '
                  'thorough <=5 nodes) x encodings x insertion orders against a '
                  'transitive-closure oracle',
     'text': 'Every labelled digraph with self-loops on up to 4 (thorough: 5) '
             'nodes is fed to the real DiGraph in every node encoding, value '
             'order and sink/unknown-edge mode; sccs(True) must be exactly the '
             'mutual-reachability partition and sccs() exactly the cyclic '
             'components. Complete for the bound, nothing sampled.',
     'note': 'Graphs with more than 5 nodes are not covered; identity-keyed '
             'nodes use whatever id() order the interpreter gives.'},
]

_PENDING = ['C07', 'C09',
            'C10', 'C11', 'C14', 'C17', 'C18',
            'C19']
_DONE = {c['id'] for c in CHECKS}
NOT_APPLICABLE = [
    {'property_id': p,
     'reason': 'check not built yet in this round (planned, see DESIGN.md §4); '
               'not claimed until its check exists'}
    for p in _PENDING if p not in _DONE]
