"""C02 — the verdict is 'failed' exactly when something went wrong."""
import os

from vt import monitors
from vt import ow
from vt import runrt
from vt import worlds

ID = 'C02'
LEVEL = 'exploration'
RULE = ('worlds = 6 layer shapes x every placement of <=B bad items (failure, '
        'error, unexpected success, failing subtest, two-event test, layer '
        'setUp raises, layer tearDown raises, unimportable module) and <=K '
        'look-alikes that are not bad (skips, expected failure, tearDown '
        'raising NotImplementedError, tests writing noise - incl. text that '
        'looks like a report header - to stdout, stderr and the real fd 2) x '
        'modes {sequential, -j1, -j2, -j3, resumed children} x filter options '
        'x child faults {spawn failure, report truncated at every line '
        'boundary, child dies before/after the header, empty stderr}; oracle: '
        'Runner.failed == (ground truth from spec+trace is bad); 9 worlds x 3 modes are also run as real command lines and the exit status compared; non-trivial '
        '= >=1 bad item, look-alike or child fault')
ASSUMPTIONS = [
    'children are in-process real Runners; child death is modelled by cutting the byte streams the parent reads',
    'ground truth never reads runner output',
]
BOUND = {
    'quick': '<=1 bad + <=1 look-alike per world; child faults on every child of every world that has children (1 fault at a time)',
    'thorough': '<=2 bad + <=1 look-alike, <=1 bad + <=2 look-alikes; child faults as quick plus every byte offset of the report',
}
CHUNK = 128

BAD = ['fail', 'error', 'uxs', 'sub:1,0,1', 'sub:0,1,1', 'body+teardown', 'setup_err',
       # failing tests whose str() reads like a report header / is all digits
       {'s': 'fail', 'strv': '7 0 0'}, {'s': 'error', 'strv': '1 0 0'}]
# bad in one --repeat iteration only (first / second execution in the process)
BAD_REP = ['fail@1', 'error@1', 'fail@2', 'uxs', 'sub:1,0,1']
# ways a test module can fail to be imported (real discovery, real processes)
IMPORT_KINDS = {
    'ImportError': 'import vt_no_such_module_xyz\n',
    'SyntaxError': 'def broken(:\n    pass\n',
    'IndentationError': 'def f():\npass\n',
    'RuntimeError': 'raise RuntimeError("at import")\n',
    'SystemExit0': 'import sys\nsys.exit(0)\n',
    'SystemExit1': 'raise SystemExit(1)\n',
    'SystemExitNone': 'raise SystemExit\n',
    'suite_raises': 'def test_suite():\n    raise ValueError("in test_suite")\n',
    'suite_exits': 'import sys\ndef test_suite():\n    sys.exit(0)\n',
    'suite_none': 'def test_suite():\n    return None\n',
    'no_tests': 'x = 1\n',
    'good': 'import unittest\nclass T(unittest.TestCase):\n    def test_ok(self):\n        pass\n',
}

LOOK = ['skip_dec', 'skip_body', 'xfail',
        # one spelling per channel (all parse as three integers), so that a
        # spoofed header can be traced to the channel it came through
        {'s': 'pass', 'w': [['o', '00 0 0\n', False]]},
        {'s': 'pass', 'w': [['e', '0 00 0\n', False]]},
        {'s': 'pass', 'w': [['fd2', 'noise from a test\n', False]]},
        {'s': 'pass', 'w': [['fd2', '0 0 0\n', False]]},
        {'s': 'pass', 'w': [['fd2', '1 2\n1 2 x\n', False]]},
        # lines that end / begin with three integers but are no header
        {'s': 'pass', 'w': [['fd2', 'cache statistics (hits misses evictions): 12 0 0\n7 0 0 requests queued\n', False]]},
        {'s': 'pass', 'w': [['o', 'Traceback (most recent call last):\nError in test fake\n', False]]},
        # bytes that are not UTF-8 on the real fd 2 (a C library, a legacy locale)
        {'s': 'pass', 'w': [['fd2b', 'caf\xe9 \xff\xfe\n', False]]}]
MODES = {'j20': ['-j20'], 'rep2': ['--repeat', '2'], 'j2rep2': ['-j2', '--repeat', '2'], 'rep3v': ['--repeat', '3', '-v'],
         'seq': [], 'j1': ['-j1'], 'j2': ['-j2'], 'j3': ['-j3'], 'v': ['-v'],
         'j2vv': ['-j2', '-vv'], 't': ['-t', 'q0|q1'], 'lvl': ['--only-level', '1'],
         'j2t': ['-j2', '-t', 'q1|q2'], 'q': ['-q'], 'j2q': ['-j2', '--quiet'],
         # the parent's own stdout cannot encode everything (an ASCII / latin-1
         # console): see PARENT_ENC
         'D': ['-D'],
         'j2v_ascii': ['-j2', '-v'], 'j2vv_ascii': ['-j2', '-vv'], 'v_latin1': ['-v'], 'j1v_latin1': ['-j1', '-v']}
PARENT_ENC = {'j2v_ascii': ('ascii', 'strict'), 'j2vv_ascii': ('ascii', 'strict'),
              'v_latin1': ('latin-1', 'strict'), 'j1v_latin1': ('latin-1', 'strict')}


def _o_filter(case):
    return case[0] in ('A1B2c', 'N1B2C1') and len(case) == 6 and case[4] in ('seq', 'j2', 'rep2') and not case[5]


ENV_PASSES = [{'name': 'python -O', 'argv': ['-O'], 'env': {}, 'filter': _o_filter}]


def _items(tier):
    """(scripts placements, layer faults, bad modules) triples."""
    B = 1 if tier == 'quick' else 2
    for shape in ow.SHAPES:
        nslots = len(ow.SHAPES[shape][1])
        lays = [n for n, _ in ow.SHAPES[shape][0]]
        # test-level items
        menu_bad = list(BAD)
        for nb in range(B + 1):
            for nl in range(2 if nb == B and tier != 'quick' else (2 if tier == 'quick' else 3)):
                if nb + nl > nslots:
                    continue
                import itertools
                for pos in itertools.permutations(range(nslots), nb + nl):
                    if list(pos[:nb]) != sorted(pos[:nb]) or list(pos[nb:]) != sorted(pos[nb:]):
                        continue
                    for bs in itertools.product(range(len(menu_bad)), repeat=nb):
                        for ls in itertools.product(range(len(LOOK)), repeat=nl):
                            sc = ['pass'] * nslots
                            for p, b in zip(pos[:nb], bs):
                                sc[p] = menu_bad[b]
                            for p, l in zip(pos[nb:], ls):
                                sc[p] = LOOK[l]
                            yield shape, sc, {}, []
        # layer-level and module-level bad items (alone and with one bad test)
        for lf in ow.layer_fault_choices(shape, 1):
            if not lf:
                continue
            yield shape, ['pass'] * nslots, lf, []
            sc = ['pass'] * nslots
            sc[-1] = 'fail'
            yield shape, sc, lf, []
        yield shape, ['pass'] * nslots, {}, ['vtw.broken']
        sc = ['pass'] * nslots
        sc[0] = 'skip_dec'
        yield shape, sc, {}, ['vtw.broken']


def cases(tier, seed):
    # nothing is wrong, but things take long (virtual clock): a layer setUp /
    # tearDown of 75 s and of more than an hour, a test of 90 s
    for what in ('setUp', 'tearDown', 'test', 'all'):
        for m in ('seq', 'j2', 'v', 'j2vv', 'q'):
            yield ['slow', what, m]
    modes = ['seq', 'j1', 'j2', 'j3', 'v', 'j2vv', 't', 'lvl', 'j2t', 'q', 'j2q']
    for shape, sc, lf, bm in _items(tier):
        for m in worlds.rot(modes, seed):
            yield [shape, sc, lf, bm, m, None]
    # -D: after the (scripted) post-mortem session of a bad outcome the run
    # ends - and its verdict is 'failed'
    for shape in ('U2', 'U1A2', 'A1B2c', 'A2B1i'):
        nslots = len(ow.SHAPES[shape][1])
        for sc in ow.placements(nslots, ['fail', 'error', 'setup_err', 'teardown_err', 'sub:1,0,1', 'uxs'], 1):
            yield [shape, sc, {}, [], 'D', None]
        for lf in ow.layer_fault_choices(shape, 1):
            if lf:
                yield [shape, ['pass'] * nslots, lf, [], 'D', None]
    # --repeat: items that are bad in one iteration only
    for shape in ow.SHAPES:
        nslots = len(ow.SHAPES[shape][1])
        for sc in ow.placements(nslots, BAD_REP, 1 if tier == 'quick' else 2):
            for m in ('rep2', 'j2rep2', 'rep3v'):
                yield [shape, sc, {}, [], m, None]
    # modules that cannot be imported, by real discovery in real processes
    for kind in IMPORT_KINDS:
        for m in ('seq', 'j2', 'v'):
            for with_layer in (False, True):
                yield ['imp', kind, m, with_layer]
    # worlds that are not small (12 layers x 40 tests + 30 unit tests): all
    # quiet outcomes, or exactly one failing test somewhere
    for bad_at in (None, 0, 29, 30, 269, -1):
        for nie in (None, 0, 4):
            for m in ('seq', 'j2', 'j20', 'j2vv'):
                yield ['big', bad_at, nie, m]
    # a layer child that is killed by a signal (also one without a name), all
    # else being fine: the verdict is failed
    for way in ('kill', 'segv', 'rtsig', 'exit0'):
        for mode in ('j2', 'resumed'):
            yield ['crash', way, mode]
    # text on a child's real stderr AFTER its report (atexit hooks, shutdown
    # messages) changes nothing
    for shape in ('N1B2C1', 'A2B1i'):
        nslots = len(ow.SHAPES[shape][1])
        for sc in (['pass'] * nslots, ['pass'] * (nslots - 1) + ['fail'], ['error'] + ['pass'] * (nslots - 1)):
            for m in ('seq', 'j2', 'j2vv'):
                for late in (b'late text\n', b'Exception ignored in: <f>\nTraceback\n', b'no newline at the end'):
                    yield [shape, sc, {}, [], m, [None, 'late', late.decode()]]
    # the exit status is a yes/no answer, however many things went wrong
    for n in (255, 256, 257, 512):
        yield ['cli_many', n, 'seq']
    yield ['cli_many', 256, 'j2']
    # the exit status of the real command line (real processes)
    for wi in range(len(CLI_WORLDS)):
        for m in ('seq', 'j2', 'v'):
            yield ['cli', wi, m]
    # child faults: worlds with children, one fault at a time
    for shape in ('N1B2C1', 'A2B1i', 'U1A2'):
        nslots = len(ow.SHAPES[shape][1])
        for scs in (['pass'] * nslots, ['pass'] * (nslots - 1) + ['fail'],
                    ['error'] + ['pass'] * (nslots - 1)):
            for m in (['seq', 'j2', 'j2vv'] if shape == 'N1B2C1' else ['j2', 'j1', 'j2vv']):
                if shape != 'N1B2C1' and m == 'seq':
                    continue
                for which in range(3):
                    for fault in (['oserror'], ['oserror_EAGAIN'], ['oserror_EMFILE'], ['oserror_ENOENT'],
                                  ['empty'], ['nohdr'], ['hdronly'],
                                  ['cutline', 1], ['cutline', 2], ['cutlast', 3],
                                  ['die_before_report'], ['noise_then_cut']):
                        yield [shape, scs, {}, [], m, [which] + fault]
                # ... and the child's stderr holds text the parent's stdout
                # cannot encode (the banner quotes it under -v)
                for m2 in (['v_latin1', 'j2v_ascii', 'j2vv_ascii'] if shape == 'N1B2C1' else ['j2v_ascii', 'j1v_latin1']):
                    if m != 'j2':
                        continue
                    for which in range(2):
                        for fault in (['nonascii_nohdr'], ['undecodable'], ['nonascii_then_cut'], ['empty'], ['oserror']):
                            yield [shape, scs, {}, [], m2, [which] + fault]
                for which in range(3):
                    if tier == 'thorough':
                        for off in range(0, 120):
                            yield [shape, scs, {}, [], m, [which, 'cutbyte', off]]


CLI_WORLDS = [
    ('N1B2C1', ['pass', 'pass', 'pass', 'pass'], {}, []),
    ('N1B2C1', ['pass', 'pass', 'fail', 'pass'], {}, []),
    ('N1B2C1', ['pass', 'pass', 'pass', 'uxs'], {}, []),
    ('N1B2C1', ['pass', 'skip_dec', 'xfail', {'s': 'pass', 'w': [['fd2', 'noise\n', False]]}], {}, []),
    ('A2B1i', ['pass', 'pass', 'pass'], {'B': {'setUp': 'ValueError'}}, []),
    ('A2B1i', ['pass', 'pass', 'pass'], {'A': {'tearDown': 'ValueError'}}, []),
    ('A2B1i', ['pass', 'pass', 'pass'], {'A': {'tearDown': 'NIE'}}, []),
    ('U1A2', ['pass', 'pass', 'sub:0,1,1'], {}, []),
    ('U1A2', ['skip_body', 'pass', 'pass'], {}, []),
]


def run_cli_case(wi, m):
    shape, sc, lf, bm = CLI_WORLDS[wi]
    spec = ow.build(shape, sc, lf)
    argv = list(MODES[m])
    res = runrt.run_cli(spec, argv, timeout=120)
    inproc = runrt.run_world(spec, argv, probe=False)
    truth = ow.Truth(spec, inproc)
    viol = []
    sig = {'part': 'cli', 'mode': m}
    want = 1 if truth.bad else 0
    if res.rc != want:
        viol.append({'clause': 'exit_status', 'sig': sig,
                     'detail': 'world %s %s %s argv=%s: exit status %r, ground truth bad=%s\n%s' % (shape, sc, lf, argv, res.rc, truth.bad, res.text[-800:])})
    if bool(inproc.failed) != bool(res.rc):
        viol.append({'clause': 'cli_and_inprocess_disagree', 'sig': sig,
                     'detail': 'world %s %s %s argv=%s: exit status %r, in-process failed=%r' % (shape, sc, lf, argv, res.rc, inproc.failed)})
    return viol


def setup_worker():
    runrt._mods()


def _mk_hook(cf, state):
    which, kind = cf[0], cf[1]
    if kind == 'late':
        def hook_late(layer, args):
            state['hit'] = True
            return ('mangle', lambda out, err: (out, err + cf[2].encode()))
        return hook_late

    def hook(layer, args):
        if kind.startswith('oserror_'):
            # the spawn of ONE layer fails with this errno on every attempt
            # (EAGAIN, ENOMEM, EMFILE: whatever a retry loop does, it does not
            # get a process)
            if state.get('layer') is None:
                i = state['n']
                state['n'] += 1
                if i != which:
                    return None
                state['layer'] = layer
            if layer != state['layer']:
                return None
            state['hit'] = True
            import errno as _errno
            return ('oserror', getattr(_errno, kind.split('_', 1)[1]))
        i = state['n']
        state['n'] += 1
        if i != which:
            return None
        state['hit'] = True
        if kind == 'oserror':
            return ('oserror',)

        def mangle(out, err):
            lines = err.splitlines(True)
            state['orig_err'] = err
            if kind == 'empty':
                return out, b''
            if kind == 'nohdr':
                return out, b'Fatal Python error: Segmentation fault\n'
            if kind == 'hdronly':
                return out, lines[0] if lines else b''
            if kind == 'cutline':
                return out, b''.join(lines[:cf[2]])
            if kind == 'cutlast':
                return out, err[:-cf[2]] if len(err) > cf[2] else b''
            if kind == 'die_before_report':
                return out[:len(out) // 2], b''
            if kind == 'nonascii_nohdr':
                return out, 'Ger\xe4t antwortet nicht \u2013 Abbruch \u4e2d\n'.encode('utf-8')
            if kind == 'undecodable':
                return out, b'\xff\xfe invalid utf-8 \xe9\n'
            if kind == 'nonascii_then_cut':
                return out, 'Warnung: Ger\xe4t \u2013\n'.encode('utf-8') + err[:max(0, len(err) - 5)]
            if kind == 'noise_then_cut':
                return out, b'Exception ignored in: <foo>\n' + err[:max(0, len(err) - 5)]
            if kind == 'cutbyte':
                return out, err[:cf[2]]
            return out, err
        return ('mangle', mangle)
    return hook


def run_many_case(n, m):
    """n bad outcomes (failures and errors, in two layers) as a real command line."""
    layers = [{'n': 'A', 'b': [], 'k': 'c', 'h': list(worlds.HOOKS_SD)}]
    tests = []
    for i in range(n):
        tests.append({'n': 'b%d' % i, 'l': (None if i % 2 else 'A'), 's': ('error' if i % 5 == 0 else 'fail')})
    tests.append({'n': 'ok', 'l': 'A', 's': 'pass'})
    res = runrt.run_cli({'layers': layers, 'tests': tests}, list(MODES[m]), timeout=300)
    viol = []
    if res.rc in (0, 'timeout'):
        viol.append({'clause': 'exit_status', 'sig': {'part': 'cli_many', 'n': n, 'mode': m},
                     'detail': '%d failing/erroring tests, argv %s: exit status %r\n%s' % (n, MODES[m], res.rc, res.text[-600:])})
    return viol


def run_imp_case(kind, m, with_layer):
    """A tree with one good test module (optionally with a layer) and one
    module of the given kind, run as a real command line."""
    import subprocess
    from vt import env
    root = env.scratch('vtimp')
    try:
        d = os.path.join(root, 'pk', 'tests')
        os.makedirs(d)
        for p in (os.path.join(root, 'pk'), d):
            with open(os.path.join(p, '__init__.py'), 'w'):
                pass
        good = IMPORT_KINDS['good']
        if with_layer:
            good += ('class L:\n    @classmethod\n    def setUp(cls):\n        pass\n'
                     '    @classmethod\n    def tearDown(cls):\n        pass\n'
                     'class T2(unittest.TestCase):\n    layer = L\n    def test_l(self):\n        pass\n')
        with open(os.path.join(d, 'test_a_good.py'), 'w') as f:
            f.write(good)
        with open(os.path.join(d, 'test_b_%s.py' % kind.lower()), 'w') as f:
            f.write(IMPORT_KINDS[kind])
        cmd = [env.PY, '-m', 'zope.testrunner', '--path', root] + list(MODES[m])
        p = subprocess.run(cmd, env=env.child_env(), stdout=subprocess.PIPE, stderr=subprocess.STDOUT,
                           stdin=subprocess.DEVNULL, timeout=120, cwd=root)
        text = p.stdout.decode('utf-8', 'replace')
    finally:
        env.rmtree(root)
    viol = []
    want = 0 if kind == 'good' else 1
    sig = {'part': 'imp', 'kind': kind, 'mode': m}
    if p.returncode != want:
        viol.append({'clause': 'exit_status', 'sig': sig,
                     'detail': 'module kind %s, argv %s: exit status %r, expected %r\n%s' % (kind, MODES[m], p.returncode, want, text[-1200:])})
    # the good module's tests still ran
    mt = runrt.TOTAL_RE.search(text) or runrt.RAN_RE.search(text)
    if not mt or int(mt.group(1)) != (2 if with_layer else 1) + (1 if kind == 'good' else 0):
        viol.append({'clause': 'good_tests_not_run', 'sig': sig,
                     'detail': 'module kind %s, argv %s: summary %r\n%s' % (kind, MODES[m], mt and mt.group(0), text[-1200:])})
    return viol


def history_key(case):
    """second run in one process: one world per mode (good), one bad world per
    mode family, one child fault"""
    if len(case) == 6 and case[0] == 'N1B2C1' and not case[2] and not case[3]:
        bad = [s for s in case[1] if s != 'pass']
        if case[5] is None and not bad and case[4] in ('seq', 'j2', 'rep2', 'j2vv', 't', 'q'):
            return ('good', case[4])
        if case[5] is None and bad == ['fail'] and case[4] in ('seq', 'j2'):
            return ('bad', case[4])
        if case[5] and case[5][1] == 'empty' and not bad and case[4] == 'j2':
            return ('cf', 'empty')
    return None


HISTORY_MAX = 9


def run_case(case):
    if case[0] == 'crash':
        from vt.props import c07
        spec = c07.crash_spec('test_body', case[1], case[2])
        spec['tests'][3]['s'] = 'pass'       # nothing else is wrong in this run
        res = runrt.run_cli(spec, ['-j2'] if case[2] == 'j2' else [], timeout=120)
        viol = []
        if res.rc != 1:
            viol.append({'clause': 'exit_status', 'sig': {'part': 'crash', 'way': case[1], 'mode': case[2]},
                         'detail': 'the child of layer B dies in a test body by %s (%s), everything else passes: exit status %r\n%s' % (case[1], case[2], res.rc, res.text[-800:])})
        return {'evals': 1, 'nontrivial': 1, 'violations': viol, 'outcome': 'crash', 'nogate': True,
                'counters': {'real_process_runs': 1}}
    if case[0] == 'slow':
        _, what, m = case
        spec = ow.build('A1B2c', ['pass', 'pass', 'pass'])
        for i, L in enumerate(spec['layers']):
            if what in ('setUp', 'tearDown', 'all'):
                L['slow'] = [75, 3700][i % 2]
                if what != 'all':
                    L['slow_only'] = what
        if what in ('test', 'all'):
            spec['tests'][0]['slowt'] = 90
            spec['tests'][-1]['slowt'] = 4000
        res = runrt.run_world(spec, list(MODES[m]), probe=False)
        viol = []
        sig = {'part': 'slow', 'mode': m, 'what': what}
        if res.escaped:
            viol.append({'clause': 'run_aborted', 'sig': sig, 'detail': res.escaped_tb})
        elif res.failed:
            viol.append({'clause': 'false_fail', 'sig': sig,
                         'detail': 'every test passes, %s takes more than a minute (virtual clock), argv %s: Runner.failed=%r; failures %s errors %s\n%s'
                                   % (what, MODES[m], res.failed, res.failures, res.errors, res.text[-800:])})
        return {'evals': 1, 'nontrivial': 1, 'violations': viol, 'outcome': ('slow', bool(res.failed))}
    if case[0] == 'big':
        _, bad_at, nie, m = case
        spec = ow.big_spec(nie=nie, scripts=['pass', 'pass', 'skip_body', 'xfail', 'skip_dec', 'sub:0,0,2'], bad_at=bad_at)
        res = runrt.run_world(spec, list(MODES[m]), probe=False)
        viol = []
        sig = {'part': 'big', 'mode': m, 'bad': bad_at is not None}
        if res.escaped:
            viol.append({'clause': 'run_aborted', 'sig': sig, 'detail': res.escaped_tb})
        elif bool(res.failed) != (bad_at is not None):
            viol.append({'clause': 'false_pass' if bad_at is not None else 'false_fail', 'sig': sig,
                         'detail': '510-test world, failing test at index %r, layer %r cannot be torn down, argv %s: Runner.failed=%r; failures %s errors %s' % (bad_at, nie, MODES[m], res.failed, res.failures, res.errors)})
        return {'evals': 1, 'nontrivial': 1, 'violations': viol, 'outcome': ('big', bool(res.failed))}
    if case[0] == 'cli_many':
        viol = run_many_case(case[1], case[2])
        return {'evals': 1, 'nontrivial': 1, 'violations': viol, 'outcome': 'cli_many', 'nogate': True,
                'counters': {'real_process_runs': 1}}
    if case[0] == 'imp':
        viol = run_imp_case(case[1], case[2], case[3])
        return {'evals': 1, 'nontrivial': 1, 'violations': viol, 'outcome': 'imp', 'nogate': True,
                'counters': {'real_process_runs': 1}}
    if case[0] == 'cli':
        viol = run_cli_case(case[1], case[2])
        return {'evals': 2, 'nontrivial': 2, 'violations': viol, 'outcome': 'cli', 'nogate': True,
                'counters': {'real_process_runs': 1}}
    shape, sc, lf, bm, m, cf = case
    spec = ow.build(shape, sc, lf, extra={'bad_modules': bm} if bm else None)
    argv = list(MODES[m])
    state = {'n': 0, 'hit': False}
    hook = _mk_hook(cf, state) if cf else None
    if m == 'D':
        # own the debugger: a session that returns at once
        import zope.testrunner.debug as _dbg

        class _Pdb:
            @staticmethod
            def post_mortem(tb=None):
                return None
        _saved_pdb = _dbg.pdb
        _dbg.pdb = _Pdb
        try:
            res = runrt.run_world(spec, argv)
        finally:
            _dbg.pdb = _saved_pdb
    else:
        res = runrt.run_world(spec, argv, child_hook=hook, parent_encoding=PARENT_ENC.get(m))
    truth = ow.Truth(spec, res)
    viol = []
    kinds = sorted({(s['s'] if isinstance(s, dict) else s) for s in sc if s != 'pass'})
    noise = sorted({w[0] + ':' + w[1].split('\n')[0].encode('ascii', 'backslashreplace').decode() for s in sc if isinstance(s, dict) for w in s.get('w', [])})
    sig = {'mode': m, 'scripts': kinds, 'noise': noise,
           'lf': sorted(h + ':' + e for d in lf.values() for h, e in d.items()),
           'bm': bool(bm), 'cf': cf[1] if cf else None}
    if any(ow.spoofed_header(c['stderr']) for c in res.children):
        sig['spoofed_header'] = True
        # the known finding is about writes to the real file descriptor 2; a
        # header look-alike that a test wrote to sys.stdout / sys.stderr must
        # never get there
        chan = {w[1].split('\n')[0].strip().encode(): w[0] for s_ in sc if isinstance(s_, dict)
                for w in s_.get('w', []) if ow._triple(w[1].split('\n')[0]) is not None}
        via = {chan.get(ln, 'other') for c in res.children for ln in ow.spoof_lines(c['stderr'])}
        sig['spoof_via'] = 'fd2' if via == {'fd2'} else 'stream:' + ','.join(sorted(via))
    child_fault_effective = False
    if cf and cf[1] == 'late':
        pass                     # not a fault: the report is complete
    elif cf and state['hit']:
        # the fault is real unless the mangled bytes equal the original report
        c = [c for c in res.children]
        child_fault_effective = True
        if not cf[1].startswith('oserror'):
            orig = state.get('orig_err')
            got = None
            for ch in res.children:
                pass
            # compare what the parent read with the original
            idx = cf[0]
            chs = res.children
            if idx < len(chs) and orig is not None and chs[idx]['stderr'] == orig:
                child_fault_effective = False
            elif idx < len(chs) and orig is not None and cf[1] in ('cutlast', 'cutbyte', 'cutline'):
                # cutting only the final newline of a report without names
                # loses nothing
                if orig.startswith(chs[idx]['stderr']) and orig[len(chs[idx]['stderr']):] == b'\n' and orig.count(b'\n') == 1:
                    child_fault_effective = False
    want_bad = truth.bad or bool(bm) or child_fault_effective
    if m == 'D':
        # (under -D tests run through debug(), which the world's trace does not
        # bracket: the single bad item of these worlds is always reached)
        want_bad = bool(kinds or lf)
    if res.escaped:
        viol.append({'clause': 'run_aborted', 'sig': dict(sig, exc=res.escaped),
                     'detail': res.escaped_tb})
    elif bool(res.failed) != bool(want_bad):
        viol.append({'clause': 'false_pass' if want_bad else 'false_fail',
                     'sig': sig,
                     'detail': 'Runner.failed=%r but ground truth bad=%r (failures %s errors %s layer faults %s import errors %s child fault %s)\nrunner lists failures=%s errors=%s\nargv=%s spec=%s'
                               % (res.failed, want_bad, dict(truth.fail), dict(truth.err), truth.layer_err, bm, cf, res.failures, res.errors, argv, spec)})
    nt = bool(kinds or noise or lf or bm or cf)
    return {'nontrivial': nt, 'violations': viol,
            'outcome': (bool(res.failed), want_bad, len(res.children)),
            'counters': {'bad_worlds': 1 if want_bad else 0,
                         'child_faults_effective': 1 if child_fault_effective else 0,
                         'with_children': 1 if res.children else 0}}
