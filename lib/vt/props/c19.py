"""C19 — threads left behind by a test are reported precisely."""
import itertools
import re
import threading

from vt import runrt
from vt import worldrt
from vt import worlds

ID = 'C19'
LEVEL = 'exploration'
RULE = ('histories = sequences of <=T tests in one layer; every test starts '
        '<=2 threads out of 8 kinds (threading/_thread x blocked/finished, '
        '_thread thread that touched threading.current_thread(), blocked '
        'threads named to match / not to match --ignore-new-thread); every '
        'blocked thread of an earlier test is released (and awaited until it '
        'is really gone) never | in the next test before that test starts its '
        'own threads | after; two pre-existing threads run throughout. The '
        '"left new threads behind" blocks of the real runner are compared with '
        'the harness\'s own registry of (test, ident, alive, name). '
        'non-trivial = >=1 blocked thread')
ASSUMPTIONS = [
    'a released thread is awaited until it has left sys._current_frames(), so "already finished" is a fact, not a timing guess',
    'thread idents are recycled by the platform; the registry records idents, so recycling is observed',
]
BOUND = {'quick': '2 tests x (<=2 threads of 8 kinds each) x 4 release points (never, inside the next test before/after its own threads, between the tests in the layer testSetUp hook) per blocked thread of the first test, plus a thread started by the layer testSetUp hook between the tests x 2 ident policies (virtual threads); 2 tests x <=1 thread x release points with real threads',
         'thorough': 'additionally 3 tests x 1 thread each x all release points'}
CHUNK = 32

# kind -> (api, name, blocked, touch)
KINDS = {
    'TB': ('threading', '', True, False),
    'TJ': ('threading', '', False, False),
    'LB': ('_thread', '', True, False),
    'LF': ('_thread', '', False, False),
    'LFt': ('_thread', '', False, True),
    'LBt': ('_thread', '', True, True),
    'IG': ('threading', 'ign-worker', True, False),
    'NI': ('threading', 'xign-worker', True, False),
    # matched / not matched by the second ignore pattern (a regex with a
    # comma inside a quantifier)
    'PG': ('threading', 'pool-12', True, False),
    'PN': ('threading', 'pool-12345', True, False),
    # matched by the third pattern only if the first one's inline flag leaks
    'XI': ('threading', 'XIgn-upper', True, False),
    # Thread subclasses whose instances are falsy: ignored by name / not ignored
    'FG': ('threading', 'falsy:ign-idle', True, False),
    'FN': ('threading', 'falsy:idle-worker', True, False),
}
IGNORE = ['(?i)IGN', r'pool-\d{1,3}$', 'xi']
# other pattern lists (case[6]); a run must use the patterns it was given and
# nothing else (in particular not those of an earlier run in the same process)
IGNSETS = [IGNORE, [], ['(?i)IGN'], [r'pool-\d{1,3}$', 'xi']]
KL = list(KINDS)


def thread_sets():
    out = [()]
    for k in KL:
        out.append((k,))
    for a, b in itertools.combinations_with_replacement(KL, 2):
        out.append((a, b))
    return out


def cases(tier, seed):
    sets = thread_sets()
    for s0 in worlds.rot(sets, seed):
        blocked0 = [i for i, k in enumerate(s0) if KINDS[k][2]]
        for rel in itertools.product(('never', 'before', 'after', 'between'), repeat=len(blocked0)):
            for s1 in sets:
                for pol in ('fresh', 'recycle'):
                    yield [[list(s0), list(s1)], [list(rel)], pol, None]
    # a thread started by the layer's testSetUp before the second test
    one_ = [()] + [(k,) for k in KL]
    for s0, s1 in itertools.product(one_, repeat=2):
        rels = ['never', 'before', 'after', 'between'] if s0 and KINDS[s0[0]][2] else [None]
        for r in rels:
            for hk in ('TB', 'LB', 'LFt'):
                for pol in ('fresh', 'recycle'):
                    yield [[list(s0), list(s1)], [[r] if r else []], pol, hk]
    # a low-level thread left behind by test 1 registers itself with
    # `threading` (gets a name) during test 2 or between the tests
    for k0 in ('LB', 'LBt'):
        for s1 in one_:
            for when in ('in_test2', 'between'):
                for pol in ('fresh', 'recycle'):
                    yield [[[k0], list(s1)], [['never']], pol, None, None, when]
    # the threads are started BEFORE a skipped / failing subtest of the same test
    for s0 in [(k,) for k in KL] + [('TB', 'LB')]:
        for s1 in one_:
            for pol in ('fresh', 'recycle'):
                for scr in ('sub_skip', 'sub:1,0,1', 'redir_sub_fail'):
                    yield [[list(s0), list(s1)], [['never'] * len([k for k in s0 if KINDS[k][2]])], pol, None, scr]
    # other --ignore-new-thread lists (none, one pattern, two patterns)
    for ign in (1, 2, 3):
        for s0 in [(k,) for k in KL]:
            for s1 in ((), ('IG',), ('PG',)):
                yield [[list(s0), list(s1)], [['never']], 'fresh', None, None, None, ign]
    # the test after the leaking one never runs (skipped by decorator / class):
    # nothing may be reported for it, whatever is still alive
    for s0 in [(k,) for k in KL] + [('TB', 'LB')]:
        for pol in ('fresh', 'recycle'):
            for scr2 in ('skip_dec', 'skip_cls'):
                for third in ((), ('TB',)):
                    yield [[list(s0), [], list(third)], [['never'] * len([k for k in s0 if KINDS[k][2]]), []], pol, None, None, None, None, scr2]
    one = [()] + [(k,) for k in KL]
    # real threads: conformance of the virtual thread table with the platform
    for s0, s1 in itertools.product(one, repeat=2):
        rels = ['never', 'before', 'after'] if s0 and KINDS[s0[0]][2] else [None]
        for r in rels:
            yield [[list(s0), list(s1)], [[r] if r else []], 'real', None]
            yield [[list(s0), list(s1)], [[r] if r else []], 'real', 'TB']
    if tier == 'thorough':
        for s0, s1, s2 in itertools.product(one, repeat=3):
            opts0 = ['never', 'before1', 'after1', 'before2', 'after2'] if s0 and KINDS[s0[0]][2] else [None]
            opts1 = ['never', 'before2', 'after2'] if s1 and KINDS[s1[0]][2] else [None]
            for r0 in opts0:
                for r1 in opts1:
                    for pol in ('fresh', 'recycle'):
                        yield [[list(s0), list(s1), list(s2)], [[r0] if r0 else [], [r1] if r1 else []], pol, None]


def history_cases(tier):
    return [[[['IG', 'PG'], ['XI']], [['never', 'never']], 'fresh', None, None, None, ign] for ign in (0, 1, 2, 3)]


def build(seq, rels, hookkind=None):
    tests = []
    n = len(seq)
    hook_actions = {}
    # release plan: (releasing test index, 'before'|'after') -> [tid]
    plan = {}
    for i, ks in enumerate(seq):
        bl = [j for j, k in enumerate(ks) if KINDS[k][2]]
        rl = rels[i] if i < len(rels) else []
        for pos, j in enumerate(bl):
            r = rl[pos] if pos < len(rl) else 'never'
            if not r or r == 'never':
                continue
            m = re.match(r'(before|after|between)(\d*)$', r)
            at = int(m.group(2)) if m.group(2) else i + 1
            if at < n:
                if m.group(1) == 'between':
                    hook_actions.setdefault(('A', 'testSetUp', at), []).append(['release', 't%d%s' % (i, 'ab'[j])])
                else:
                    plan.setdefault((at, m.group(1)), []).append('t%d%s' % (i, 'ab'[j]))
    for i, ks in enumerate(seq):
        acts = []
        for tid in plan.get((i, 'before'), []):
            acts.append(['release', tid])
        for j, k in enumerate(ks):
            api, name, blocked, touch = KINDS[k]
            acts.append(['start', api, name, 't%d%s' % (i, 'ab'[j]), blocked, touch])
        for tid in plan.get((i, 'after'), []):
            acts.append(['release', tid])
        tests.append({'n': 'q%d' % i, 'l': 'A', 's': 'pass', 'th': acts})
    if hookkind and n > 1:
        api, name, blocked, touch = KINDS[hookkind]
        hook_actions.setdefault(('A', 'testSetUp', 1), []).append(
            ['start', api, name, 'h1', blocked, touch])
    return {'layers': [{'n': 'A', 'b': [], 'k': 'c',
                        'h': ['setUp', 'tearDown', 'testSetUp', 'testTearDown']}],
            'tests': tests}, hook_actions


def setup_worker():
    runrt._mods()


BLOCK_RE = re.compile(r'The following test left new threads behind:\n(.*)\nNew thread\(s\): (.*)\n')


def parse_reports(text):
    out = {}
    for m in BLOCK_RE.finditer(text):
        tm = re.match(r'test_(\w+) ', m.group(1))
        idents = set(int(x) for x in re.findall(r'started (?:daemon )?(\d+)\)', m.group(2)))
        idents |= set(int(x) for x in re.findall(r'DummyThread (\d+),', m.group(2)))
        names = re.findall(r'<\w*Thread\(([^,]*),', m.group(2))
        out.setdefault(tm.group(1) if tm else m.group(1), []).append((idents, m.group(2), names))
    return out


def run_case(case):
    seq, rels, mode, hookkind = case[:4]
    spec, hook_actions = build(seq, rels, hookkind)
    if len(case) > 4 and case[4]:
        # the first test goes on after starting its threads: a skipped or
        # failing subtest (result events in the middle of the test)
        spec['tests'][0]['s'] = case[4]
    ignore = IGNSETS[case[6]] if len(case) > 6 and case[6] is not None else IGNORE
    if len(case) > 7 and case[7]:
        spec['tests'][1]['s'] = case[7]
    if len(case) > 5 and case[5]:
        if case[5] == 'in_test2':
            spec['tests'][1]['th'] = [['touch', 't0a']] + list(spec['tests'][1].get('th') or [])
        else:
            hook_actions.setdefault(('A', 'testSetUp', 1), []).insert(0, ['touch', 't0a'])
        worldrt.reset_hook_actions(hook_actions)
    worldrt.reset_hook_actions(hook_actions)
    viol = []
    saved = None
    worldrt.release_all_threads()
    if mode == 'real':
        # two threads that exist before the run
        worldrt.thread_action(['start', 'threading', 'pre-existing', 'pre1', True])
        worldrt.thread_action(['start', '_thread', '', 'pre2', True])
        pre = {worldrt.THREADS['pre1']['ident'], worldrt.THREADS['pre2']['ident']}
    else:
        saved = worldrt.install_vthreads(mode)
        worldrt.thread_action(['start', 'threading', 'pre-existing', 'pre1', True])
        worldrt.thread_action(['start', '_thread', '', 'pre2', True])
        pre = {worldrt.VTABLE.recs['pre1']['ident'], worldrt.VTABLE.recs['pre2']['ident']}
    try:
        res = runrt.run_world(spec, [x for p in ignore for x in ('--ignore-new-thread', p)], probe=False)
        if mode == 'real':
            reg = {tid: dict(ident=r['ident'], name=r['name'], api=r['api'])
                   for tid, r in worldrt.THREADS.items()}
        else:
            reg = {tid: dict(ident=r['ident'], name=r['name'], api=r['api'])
                   for tid, r in worldrt.VTABLE.recs.items()}
    finally:
        if saved is not None:
            worldrt.uninstall_vthreads(saved)
        worldrt.release_all_threads()
        worldrt.reset_hook_actions()
    started = {}      # tid -> ident
    released_in = {}  # tid -> test index during which it was released
    alive_at_start = {}
    cur = None
    for ev in res.trace:
        if ev[1] == 't' and ev[3] == 'run>':
            cur = int(ev[2][1:])
        elif ev[1] == 'L' and ev[3] == 'testSetUp' and ev[4] == '>':
            cur = None            # layer hook: between tests
        elif ev[1] == 't' and ev[3] == 'setUp':
            cur = int(ev[2][1:])
        elif ev[1] == 'th' and ev[2] == 'started':
            started[ev[3]] = (cur, ev[4], ev[7])   # test, ident, blocked
        elif ev[1] == 'th' and ev[2] == 'released':
            released_in[ev[3]] = cur
    reports = parse_reports(res.text)
    sig = {}
    if res.escaped:
        viol.append({'clause': 'run_aborted', 'sig': {}, 'detail': res.escaped_tb})
    for i in range(len(seq)):
        want = set()
        for tid, (ti, ident, blocked) in started.items():
            if ti != i or not blocked:
                continue
            if released_in.get(tid) == i:
                continue
            if any(re.match(p, reg[tid]['name'] or '') for p in ignore):
                continue
            want.add(ident)
        got = set()
        blocks = reports.get('q%d' % i, [])
        for idents, raw, names in blocks:
            got |= idents
        if len(blocks) > 1:
            viol.append({'clause': 'reported_twice', 'sig': {}, 'detail': 'test q%d: %s' % (i, blocks)})
        if got != want:
            missing = want - got
            extra = got - want
            # ident recycling: a missed thread whose ident belonged to a thread
            # that was alive when the test started and ended during it
            reused = False
            for m in missing:
                for tid, (ti, ident, blocked) in started.items():
                    if ident == m and (ti is None or ti < i) and released_in.get(tid, 'x') == i:
                        reused = True
            kinds = sorted(set(seq[i]))
            what = []
            for e in extra:
                if e in pre:
                    what.append('pre-existing')
                for tid, (ti, ident, blocked) in started.items():
                    if ident == e:
                        what.append('%s from test %s (%s)' % (tid, ti, 'blocked' if blocked else 'finished'))
            if mode == 'real' and reused and not extra:
                continue      # decided by the virtual table, not by luck
            clause = ('leak_missed_ident_recycled' if (reused and not extra) else
                      ('thread_wrongly_reported' if extra else 'leaked_thread_not_reported'))
            viol.append({'clause': clause,
                         'sig': {'kinds': kinds, 'mode': mode, 'hook': hookkind, 'ign': case[6] if len(case) > 6 else 0} if clause != 'leak_missed_ident_recycled' else {},
                         'detail': 'seq=%s rels=%s test q%d: reported idents %s, really left behind %s (extra: %s; missing %s); registry %s\n%s'
                                   % (seq, rels, i, sorted(got), sorted(want), what, sorted(missing), reg, [b[1] for b in blocks])})
    nt = any(KINDS[k][2] for ks in seq for k in ks)
    return {'nontrivial': nt, 'violations': viol,
            # real threads: the platform's ident allocation and threading's
            # own registry are not owned by the harness - no replay-twice gate
            'nogate': mode == 'real',
            'outcome': (mode, len(reports), bool(res.escaped)),
            'counters': {'runs_with_ident_reuse': 1 if len({v[1] for v in started.values()}) < len(started) else 0}}
