"""C04 — exceptions from tests and layers are contained."""
import collections
import os

from vt import monitors
from vt import ow
from vt import runrt
from vt import worlds

ID = 'C04'
LEVEL = 'exploration'
RULE = ('worlds = 6 layer shapes x every placement of <=K faulty test '
        'scripts (every raising phase: setUp, body, subtests, tearDown, '
        'cleanup, two-event tests, SystemExit; 16 exception shapes for the '
        'body error incl. chained/contextual/grouped/annotated ones and one '
        'whose __str__ raises) x <=1 failing layer hook x --buffer on/off x -v levels x '
        '{sequential, -j2}; the real Runner must return, run every other '
        'runnable test once, tear every layer down, print a summary per layer '
        'and list each fault against the right test/layer; non-trivial = >=1 '
        'fault')
ASSUMPTIONS = [
    'a layer setUp failure may be listed against the layer being set up or the base that raised',
    'KeyboardInterrupt is not an Exception subclass and is outside this property (C18 covers it)',
]
BOUND = {
    'quick': '<=1 faulty test + <=1 faulty layer hook; -v in {0,2}; buffer on/off; seq and -j2',
    'thorough': '<=2 faulty tests + <=1 faulty layer hook; -v in {0,1,2,3}; -p; buffer on/off; seq, -j2, -j3',
}
CHUNK = 128

MENU = ['fail', 'setup_err', 'teardown_err', 'cleanup_err', 'body+teardown',
        'fail+teardown', 'sub:2,0,0', 'sub:1,1,0', 'sub:0,2,0', 'uxs', 'sysexit',
        'skip_dec', 'xfail', 'swap_fail', 'swap_pass', 'sub_skip',
        'redir_sub_fail',
        # tests that close the stream objects they find in sys.stdout / sys.stderr
        # (with --buffer these are the runner's capture buffers)
        'close_out', 'close_fail']
EXCS = ['ValueError', 'KeyError', 'User', 'Deep', 'BadStr', 'Unicode',
        'Recursion', 'Stop', 'OSError', 'Chained', 'Context', 'Chain3',
        'Group', 'Noted', 'Syntax', 'Indent', 'CauseCycle', 'ContextCycle',
        'SelfCause', 'Empty', 'NIEbare', 'Blank', 'NLfirst',
        # exceptions that cannot be put into a set / compared
        'Unhashable', 'EqRaises', 'UnhashableCause']


def _o_filter(case):
    shape, scripts, lf, buf, v, mode = case
    return mode in ('seq', 'j2') and v == 0 and shape in ('A1B2c', 'A2B1i', 'N1B2C1', 'BIG')


# `assert` statements vanish under python -O; files are written in the
# locale's encoding
ENV_PASSES = [{'name': 'python -O', 'argv': ['-O'], 'env': {}, 'filter': _o_filter},
              {'name': 'C locale', 'argv': ['-X', 'utf8=0'],
               'env': {'LC_ALL': 'C', 'LANG': 'C', 'PYTHONUTF8': '0', 'PYTHONCOERCECLOCALE': '0', 'PYTHONIOENCODING': 'utf-8'},
               'filter': lambda case: str(case[5]).startswith('xml') or case[5] == 'asciiout'}]


def _menu():
    out = list(MENU)
    for e in EXCS:
        out.append({'s': 'error', 'e': e})
    out.append({'s': 'setup_err', 'e': 'BadStr'})
    out.append({'s': 'teardown_err', 'e2': 'BadStr'})
    out.append({'s': 'sub:0,1,1', 'e': 'BadStr'})
    # doctest cases: their failures take the DocTestFailureException path of
    # the formatter
    # a faulty test that has written bytes which are not UTF-8 to .buffer
    out.append({'s': 'error', 'w': [['o', 'caf\xe9 \xff\xfe\n', 'latin1']]})
    out.append({'s': 'fail', 'w': [['e', '\xff\n', 'latin1'], ['o', 'text\n', False]]})
    out.append({'dt': 'string', 's': 'fail', 'dk': 'diff'})
    out.append({'dt': 'string', 's': 'fail', 'dk': 'exc'})
    out.append({'dt': 'file', 's': 'fail', 'dk': 'diff'})
    out.append({'dt': 'file', 's': 'fail', 'dk': 'exc', 'msg': 'caf\xe9 \u2028 <x>'})
    return out


def cases(tier, seed):
    menu = worlds.rot(_menu(), seed)
    K = 1 if tier == 'quick' else 2
    vs = [0, 2] if tier == 'quick' else [0, 1, 2, 3]
    modes = ['seq', 'j2', 'c'] if tier == 'quick' else ['seq', 'j2', 'j3', 'p', 'c', 'c+j2']
    # real processes: a test that leaves the working directory changed while
    # the search path is relative (shared with C03)
    for where in ('unit', 'layer_test'):
        yield ['CWD', where, {}, False, 0, 'resumed']
    # --xml with a non-ASCII exception message (also in the C-locale pass)
    for sc in ({'s': 'error', 'msg': 'caf\xe9 \u2028 \U0001f600'}, {'s': 'fail', 'mn': 'gr\xf6\xdfe'}):
        for mode in ('xml', 'xml+j2'):
            yield ['U1A2', ['pass', sc, 'pass'], {}, False, 0, mode]
    # a C locale (the environment pass): stdout cannot encode what an erroring
    # test printed
    for sc in ({'s': 'error', 'w': [['o', 'caf\xe9 \u2028\n', False]]},
               {'s': 'error', 'w': [['e', 'gr\xf6\xdfe\n', False]]},
               {'s': 'setup_err', 'ws': [['o', '\U0001f600\n', False]]},
               {'s': 'error', 'w': [['o', 'caf\xe9\n', True]]}):
        for buf in (False, True):
            for v in (0, 2):
                yield ['U1A2', ['pass', sc, 'pass'], {}, buf, v, 'asciiout']
                yield ['A1B2c', [sc, 'pass', 'fail'], {}, buf, v, 'asciiout']
    # --xml with every exception shape (tests) and a failing layer hook
    for e in EXCS:
        for mode in ('xml', 'xml+j2'):
            yield ['U1A2', ['pass', {'s': 'error', 'e': e}, 'pass'], {}, False, 0, mode]
            yield ['A1B2c', [{'s': 'sub:0,1,1', 'e': e}, 'pass', 'fail'], {}, True, 2, mode]
    for nie in (None, 1, 7):
        for buf in (False, True):
            for mode in ('seq', 'j2', 'j3', 'c', 'p'):
                yield ['BIG', nie, {}, buf, 0 if mode != 'p' else 1, mode]
    # --repeat: a test that raises in one iteration only is still recorded
    # against that test when the run ends
    for shape in ('A1B2c', 'N1B2C1', 'U1A2'):
        nslots = len(ow.SHAPES[shape][1])
        for pos in range(nslots):
            for sc in ('error@1', 'fail@1', 'error@2', 'sysexit@1', 'fail@3'):
                for buf in (False, True):
                    for mode in ('rep2', 'rep3', 'rep3+j2'):
                        scripts = ['pass'] * nslots
                        scripts[pos] = sc
                        yield [shape, scripts, {}, buf, 0, mode]
    for shape in ow.SHAPES:
        nslots = len(ow.SHAPES[shape][1])
        for scripts in ow.placements(nslots, menu, K):
            if tier == 'thorough' and sum(1 for s in scripts if s != 'pass') == 2:
                lfs = [{}]
            else:
                allpass = all(s == 'pass' for s in scripts)
                lfs = list(ow.layer_fault_choices(shape, 1, rich=allpass))
            for lf in lfs:
                for buf in (False, True):
                    for v in vs:
                        for mode in modes:
                            yield [shape, scripts, lf, buf, v, mode]


def setup_worker():
    runrt._mods()


def argv_of(buf, v, mode):
    argv = []
    if v:
        argv.append('-' + 'v' * v)
    if buf:
        argv.append('--buffer')
    if mode == 'j2':
        argv.append('-j2')
    elif mode == 'j3':
        argv.append('-j3')
    elif mode == 'p':
        argv.append('-p')
    elif mode == 'c':
        argv.append('-c')
    elif mode == 'c+j2':
        argv += ['-c', '-j2']
    elif mode.startswith('rep'):
        argv += ['--repeat', mode[3]] + (['-j2'] if mode.endswith('j2') else [])
    elif mode.startswith('xml'):
        argv += ['--xml', '/dev/shm/vt-c04-xml-%d' % os.getpid()] + (['-j2'] if mode.endswith('j2') else [])
    return argv


def history_key(case):
    """second run in one process: a good world and two faulty ones per mode"""
    if len(case) == 6 and case[0] == 'A1B2c' and case[1] and all(isinstance(s, str) for s in case[1]) and not case[2] and case[4] == 0:
        bad = [s for s in case[1] if s != 'pass']
        if bad in ([], ['error'], ['sysexit']) and case[5] in ('seq', 'j2'):
            return (str(bad), case[3], case[5])
    return None


HISTORY_MAX = 10


def run_case(case):
    shape, scripts, lf, buf, v, mode = case
    if shape == 'CWD':
        from vt.props import c03
        viol = c03.run_cwd_case(scripts, mode)
        for vv in viol:
            vv['sig'] = {'buf': False, 'mode': 'cwd', 'scripts': [], 'lf': []}
        return {'nontrivial': True, 'violations': viol, 'outcome': 'cwd', 'nogate': True}
    if shape == 'BIG':
        # 12 layers x 40 tests + 30 unit tests, every outcome kind many times
        spec = ow.big_spec(nie=scripts)
        scripts = []
    else:
        spec = ow.build(shape, scripts, lf)
    argv = argv_of(buf, v, mode)
    if mode == 'asciiout':
        if os.environ.get('VT_ENV_PASS') is None:
            # only meaningful where the locale's encoding and the encoding of
            # sys.stdout agree (the C-locale pass)
            return {'nontrivial': False, 'violations': [], 'outcome': 'asciiout skipped'}
        res = runrt.run_world(spec, argv, parent_encoding=('ascii', 'surrogateescape'))
    else:
        res = runrt.run_world(spec, argv)
    if mode.startswith('xml'):
        import shutil
        shutil.rmtree('/dev/shm/vt-c04-xml-%d' % os.getpid(), ignore_errors=True)
    sv = monitors.SpecView(spec)
    kinds = sorted({((s.get('dt', '') + s['s']) if isinstance(s, dict) else s) for s in scripts if s != 'pass'})
    sig = {'buf': buf, 'mode': mode, 'scripts': kinds, 'lf': sorted(h for d in lf.values() for h in d)}
    viol = []

    def V(clause, detail, **kw):
        viol.append({'clause': clause, 'sig': dict(sig, **kw),
                     'detail': str(detail) + '\nargv=%s spec=%s' % (argv, spec)})
    if res.escaped:
        V('run_aborted', res.escaped_tb, exc=res.escaped)
    truth = ow.Truth(spec, res)
    bad_setup = {L for L, f in lf.items() if 'setUp' in f}
    for t in spec['tests']:
        lay = t.get('l')
        want = 0 if (lay is not None and sv.closure[lay] & bad_setup) else (int(mode[3]) if mode.startswith('rep') else 1)
        if truth.runs[t['n']] != want:
            V('executed_count', 'test %s executed %d times, expected %d' % (t['n'], truth.runs[t['n']], want))
    for clause, detail in monitors.check_layer_stack(sv, res):
        V('stack:' + clause, detail)
    if not res.escaped:
        # a summary per layer that ran, in the process where it ran
        layers_by_vpid = collections.defaultdict(set)
        for tid, vps in truth.run_vpid.items():
            for vp in vps:
                layers_by_vpid[vp].add(sv.tests[tid].get('l'))
        outs = monitors.outputs_by_vpid(res)
        for vp, ls in layers_by_vpid.items():
            nran = len(runrt.RAN_RE.findall((outs.get(vp) or b'').decode('utf-8', 'replace')))
            if mode.startswith('c'):
                break        # the colour formatter decorates the summary line
            if nran < len(ls) or (nran != len(ls) and mode in ('seq', 'p')):
                V('summary_lines', 'process %s: %d "Ran" lines for %d layers that ran tests there' % (vp, nran, len(ls)))
        ftests, flayers, fsubs, fother = ow.split_names(res.failures or [])
        etests, elayers, esubs, eother = ow.split_names(res.errors or [])
        if ftests != truth.fail:
            V('failure_names', 'runner lists failures %s, really failed: %s' % (dict(ftests), dict(truth.fail)))
        if etests != truth.err:
            V('error_names', 'runner lists errors %s, really errored: %s' % (dict(etests), dict(truth.err)))
        if flayers or fsubs or fother or esubs or eother:
            V('spurious_entries', 'failures: %s %s %s errors: %s %s' % (flayers, fsubs, fother, esubs, eother))
        msg = truth.layer_err_ok(elayers)
        if msg:
            V('layer_failure_entries', msg)
        # "recorded" includes the verdict: what is on record makes the run fail
        if truth.bad and res.failed is not True:
            V('recorded_but_verdict_passed', 'failures %s errors %s layer faults %s, Runner.failed=%r' % (dict(truth.fail), dict(truth.err), truth.layer_err, res.failed))
    nt = any(s != 'pass' for s in scripts) or bool(lf)
    return {'nontrivial': nt, 'violations': viol,
            'outcome': (res.failed, bool(res.escaped), len(res.children)),
            'counters': {'with_children': 1 if res.children else 0,
                         'faulty': 1 if nt else 0}}
