"""C12 — reported counts and failure lists equal what actually happened."""
import collections
import re

from vt import monitors
from vt import ow
from vt import runrt
from vt import worlds

ID = 'C12'
LEVEL = 'exploration'
RULE = ('worlds = 6 layer shapes x every placement of <=K non-pass outcomes '
        '(17 kinds incl. several events per test, subtests, unexpected '
        'success, every skip kind) x <=1 failing layer hook x {no, one} '
        'unimportable module x -v {0,1,2} x --repeat {1,2} x {sequential, '
        '-j2} (one shape resumes layers in children); every "Ran ..." line of '
        'every process, the "Total:" line and the name lists are compared with '
        'counts taken from the spec and the trace; non-trivial = >=1 non-pass '
        'outcome, layer fault or import error')
ASSUMPTIONS = [
    'per-layer error counts include the import errors and "Total: N tests" counts each test once per layer under --repeat - both are upstream\'s documented conventions (testrunner-errors.rst, testrunner-repeat.rst)',
    'children are in-process real Runners',
]
BOUND = {
    'quick': 'K<=1 outcome per world',
    'thorough': 'K<=2 outcomes per world, plus -j3 and -v3',
}
CHUNK = 128

MENU = ['fail', 'error', 'fail@1', 'error@2', 'sub_skip', 'uxs', 'skip_dec', 'skip_cls', 'skip_setup',
        'skip_body', 'xfail', 'sub:1,0,1', 'sub:2,0,0', 'sub:1,1,0',
        'sub:0,0,2', 'setup_err', 'teardown_err', 'body+teardown',
        'fail+teardown', 'cleanup_err']
# test objects whose countTestCases() is not 1 (the runner counts a test
# object as countTestCases() tests)
CMENU = [{'s': 'pass', 'ctc': 0}, {'s': 'fail', 'ctc': 0}, {'s': 'pass', 'ctc': 3}]
# a failing / erroring test with a non-ASCII name, for children whose stderr
# is latin-1 (a legacy locale, PYTHONIOENCODING)
LMENU = [{'s': 'fail', 'mn': 'caf\xe9'}, {'s': 'error', 'mn': 'gr\xf6\xdfe'}]
SMENU = [{'s': 'fail', 'strv': '7 0 0'}, {'s': 'error', 'strv': '12 0 0'}, {'s': 'fail', 'strv': 'two  blanks   inside (x)'}]
HMENU = [{'s': 'sub:1,1,0', 'subm': 'page one\x0cpage two\u2028three\x85four\x1cfive\x0bsix'},
         # a lone surrogate: what os.listdir() makes of a file name that is not UTF-8
         {'s': 'sub:1,1,0', 'subm': 'caf\udce9.txt'}]
DMENU = [{'dt': 'string', 's': 'fail', 'dk': 'diff'}, {'dt': 'file', 's': 'fail', 'dk': 'exc'},
         {'dt': 'string', 's': 'pass'}, {'dt': 'file', 's': 'pass'}]
MODEARGS = {'seq': [], 'j2': ['-j2'], 'j3': ['-j3'], 'j20': ['-j20'],
            # children whose real stderr carries more text after the report
            # (atexit handlers, interpreter shutdown messages)
            'j2+late': ['-j2'], 'j2+latin1': ['-j2'],
            # other formatters / verbosity: the numbers must not depend on them
            'p': ['-p'], 'v4': ['-vvvv'], 'c': ['-c'], 'slow': ['--slow-test', '0'],
            'p+j2': ['-p', '-j2'], 'c+j2': ['-c', '-j2'], 'autoprogress': ['--auto-progress']}
FMT_MODES = ['p', 'v4', 'c', 'slow', 'p+j2', 'c+j2', 'autoprogress']


def _o_filter(case):
    return case[0] not in ('cwd', 'profile') and case[4] == 0 and case[6] in ('seq', 'j2') and case[0] in ('A1B2c', 'N1B2C1')


ENV_PASSES = [{'name': 'python -O', 'argv': ['-O'], 'env': {}, 'filter': _o_filter}]


def cases(tier, seed):
    K = 1 if tier == 'quick' else 2
    vs = [0, 1, 2] if tier == 'quick' else [0, 1, 2, 3]
    modes = ['seq', 'j2', 'j2+late'] if tier == 'quick' else ['seq', 'j2', 'j3', 'j2+late']
    for where in ('unit', 'layer_test'):
        yield ['cwd', where, 'resumed']
    # --profile together with layer subprocesses (real processes: two
    # profilers cannot be nested in one interpreter)
    for mode in ('j2', 'resumed'):
        yield ['profile', mode, None]
    for shape in ('N1B2C1', 'A2B1i', 'U1A2'):
        nslots = len(ow.SHAPES[shape][1])
        for sc in ow.placements(nslots, LMENU, 2):
            if all(x == 'pass' for x in sc):
                continue
            yield [shape, sc, {}, 0, 1, 1, 'j2+latin1']
    # a world that is not small: 12 layers x 40 tests + 30 unit tests
    for nie in (None, 0, 5):
        for mode in ('seq', 'j2', 'j3', 'p', 'c+j2'):
            for rep in (1, 2):
                if rep == 2 and mode not in ('seq', 'j2'):
                    continue
                yield ['BIG', [], {}, 0, 1 if mode in ('p', 'c+j2') else 0, rep, mode, nie]
    menu = worlds.rot(MENU + DMENU + HMENU + CMENU + SMENU, seed)
    for shape in ow.SHAPES:
        nslots = len(ow.SHAPES[shape][1])
        items = []
        for sc in ow.placements(nslots, menu, K):
            items.append((sc, {}, 0))
            items.append((sc, {}, 1))
        for lf in ow.layer_fault_choices(shape, 1):
            if not lf:
                continue
            items.append((['pass'] * nslots, lf, 0))
            items.append((['fail'] + ['pass'] * (nslots - 1), lf, 0))
            items.append((['pass'] * (nslots - 1) + ['skip_body'], lf, 0))
        for sc, lf, bm in items:
            for v in vs:
                for rep in (1, 2):
                    for mode in modes:
                        yield [shape, sc, lf, bm, v, rep, mode]
            if not bm and shape in ('A1B2c', 'N1B2C1', 'U1A2'):
                for mode in FMT_MODES:
                    if mode.startswith('p') and any(isinstance(x, dict) and x.get('ctc') == 0 for x in sc):
                        # (a layer whose tests all count as 0 test cases makes
                        # the progress percentage divide by zero: such test
                        # objects are outside the stated worlds)
                        continue
                    yield [shape, sc, lf, bm, 1 if mode != 'v4' else 0, 1, mode]


def setup_worker():
    runrt._mods()


def run_profile(mode):
    A = {'n': 'A', 'b': [], 'k': 'c', 'h': list(worlds.HOOKS_SD)}
    if mode == 'resumed':
        A['f'] = {'tearDown': 'NIE'}
    layers = [A, {'n': 'B', 'b': [], 'k': 'c', 'h': list(worlds.HOOKS_SD)},
              {'n': 'C', 'b': [], 'k': 'c', 'h': list(worlds.HOOKS_SD)}]
    tests = [{'n': 'a0', 'l': 'A', 's': 'pass'}, {'n': 'a1', 'l': 'A', 's': 'pass'},
             {'n': 'b0', 'l': 'B', 's': 'fail'}, {'n': 'b1', 'l': 'B', 's': 'pass'},
             {'n': 'c0', 'l': 'C', 's': 'error'}, {'n': 'c1', 'l': 'C', 's': 'pass'}]
    spec = {'layers': layers, 'tests': tests}
    from vt import env
    pd = env.scratch('vtprof')
    res = runrt.run_cli(spec, ['--profile', 'cProfile', '--profile-directory', pd] + (['-j2'] if mode == 'j2' else []), timeout=120)
    env.rmtree(pd)
    viol = []
    m = runrt.TOTAL_RE.search(res.text)
    got = tuple(int(x) for x in m.groups()[:3]) if m else None
    if got != (6, 1, 1):
        viol.append({'clause': 'total_line', 'sig': {'part': 'profile', 'mode': mode},
                     'detail': '--profile cProfile %s: Total %s, really 6 tests, 1 failure, 1 error\n%s' % (mode, got, res.text[-1200:])})
    return {'evals': 1, 'nontrivial': 1, 'violations': viol, 'outcome': 'profile', 'nogate': True}


def run_cwd(where, mode):
    # real processes, relative search path, a test that changes the cwd (shared
    # with C03): the totals must still count every layer
    from vt.props import c03
    viol = c03.run_cwd_case(where, mode)
    for v in viol:
        v['sig'] = {'part': 'cwd', 'mode': mode}
    return viol


def _ran_lines(b):
    return [tuple(int(x) for x in m) for m in
            runrt.RAN_RE.findall(runrt.strip_ansi((b or b'').decode('utf-8', 'replace')))]


def history_key(case):
    """second run in one process: a good and a bad world per mode"""
    if len(case) == 7 and case[0] == 'A1B2c' and not case[2] and case[3] == 0 and case[4] == 1:
        bad = [s for s in case[1] if s != 'pass']
        if (not bad or bad in (['fail'], ['uxs'], ['skip_body'])) and case[6] in ('seq', 'j2') and all(isinstance(s, str) for s in case[1]):
            return (str(bad), case[5], case[6])
    return None


HISTORY_MAX = 10


def run_case(case):
    if case[0] == 'profile':
        return run_profile(case[1])
    if case[0] == 'cwd':
        return {'evals': 1, 'nontrivial': 1, 'violations': run_cwd(case[1], case[2]),
                'outcome': 'cwd', 'nogate': True}
    shape, sc, lf, bm, v, rep, mode = case[:7]
    if shape == 'BIG':
        spec = ow.big_spec(nie=case[7])
    else:
        spec = ow.build(shape, sc, lf, extra={'bad_modules': ['vtw.broken']} if bm else None)
    argv = list(MODEARGS[mode])
    if v:
        argv.append('-' + 'v' * v)
    if rep > 1:
        argv += ['--repeat', str(rep)]
    hook = None
    if mode == 'j2+late':
        def hook(layer, args):
            # ... and lines before it that end / begin with three integers
            # without being a header (a logging handler, a C library)
            return ('mangle', lambda out, err: (out, b'fixtures: schema loaded: 40 0 0\n3 0 0 requests queued\n' + err +
                                                b'Exception ignored in: <function f at 0x7f>\nlate text on stderr\n'))
    res = runrt.run_world(spec, argv, child_hook=hook,
                          child_stderr_encoding='latin-1' if mode == 'j2+latin1' else None)
    sv = monitors.SpecView(spec)
    truth = ow.Truth(spec, res)
    kinds = sorted({((s.get('dt', '') + s['s'] + ('+subm' if 'subm' in s else '') + ('+ctc%d' % s['ctc'] if 'ctc' in s else '')) if isinstance(s, dict) else s) for s in sc if s != 'pass'})
    sig = {'mode': mode, 'v': min(v, 1), 'rep': rep, 'scripts': kinds,
           'lf': sorted(h for d in lf.values() for h in d), 'bm': bm}
    viol = []

    def V(clause, detail, **kw):
        viol.append({'clause': clause, 'sig': dict(sig, **kw),
                     'detail': str(detail) + '\nargv=%s spec=%s' % (argv, spec)})
    if res.escaped:
        V('run_aborted', res.escaped_tb, exc=res.escaped)
        return {'nontrivial': True, 'violations': viol, 'outcome': 'aborted'}
    # ---- per-process, per-layer "Ran" lines
    order = collections.OrderedDict()     # vpid -> OrderedDict(layer -> runs)
    for ev in res.trace:
        if ev[1] == 't' and ev[3] == 'run>':
            lay = sv.tests[ev[2]].get('l')
            order.setdefault(ev[0], collections.OrderedDict()).setdefault(lay, []).append(ev[2])
    outs = monitors.outputs_by_vpid(res)
    per_layer_tests = {}
    skips_in_children = 0
    for vpid, out in outs.items():
        got = _ran_lines(out)
        if vpid == 0 and '-j' in ' '.join(argv):
            # the empty first layer of a -j parent (one line per iteration)
            n0 = 0
            while n0 < rep and n0 < len(got) and got[n0] == (0, 0, bm, 0):
                n0 += 1
            got = got[n0:]
        want = []
        for lay, runs in (order.get(vpid) or {}).items():
            k = len(runs) // rep if rep else len(runs)
            if len(runs) % rep:
                V('harness_iteration_split', 'layer %s ran %d times under --repeat %d' % (lay, len(runs), rep))
            def ctc(tid):
                c = sv.tests[tid].get('ctc')
                return 1 if c is None else c
            kk = sum(ctc(tid) for tid in runs[:k])
            per_layer_tests[(vpid, lay)] = kk
            for it in range(rep):
                f = e = s = 0
                for tid in runs[it * k:(it + 1) * k]:
                    # every test runs once per iteration: the (it+1)-th
                    # execution in this process
                    for kind, _ in ow.script_events(sv.tests[tid], nth=it + 1):
                        if kind == 'F':
                            f += 1
                        elif kind == 'E':
                            e += 1
                        else:
                            s += 1
                if vpid != 0:
                    skips_in_children += s
                want.append((kk, f, e + bm, s))
        if got != want:
            V('layer_summary', 'process %s prints Ran lines %s, trace says %s' % (vpid, got, want))
    # ---- totals
    T = sum(per_layer_tests.values())
    F = sum(truth.fail.values())
    E = sum(truth.err.values()) + len(truth.layer_err) + bm
    S = truth.skip
    if res.ran != T:
        V('runner_ran', 'Runner.ran=%s, tests executed (once per layer)=%s' % (res.ran, T))
    m = runrt.TOTAL_RE.search(runrt.strip_ansi(res.out_own.decode('utf-8', 'replace')))
    if m:
        got = tuple(int(x) for x in m.groups())
        if got[:3] != (T, F, E):
            V('total_line', 'Total line %s, trace says tests=%d failures=%d errors=%d' % (got, T, F, E))
        if got[3] != S:
            if skips_in_children and got[3] == S - skips_in_children:
                V('total_skipped_child_skips_dropped', 'Total says %d skipped, %d tests were skipped (%d of them in layer subprocesses)' % (got[3], S, skips_in_children), scripts=['<skip>'], lf=[], bm=0, rep=0, v=0)
            else:
                V('total_skipped', 'Total says %d skipped, really %d (in children: %d)' % (got[3], S, skips_in_children))
    else:
        nlayers = len({lay for (vp, lay) in per_layer_tests}) + len(truth.layer_err)
        if nlayers > 1 and '-j' not in ' '.join(argv) and not lf:
            V('no_total_line', res.text[-400:])
    # ---- names
    ftests, flayers, fsubs, fother = ow.split_names(res.failures or [])
    etests, elayers, esubs, eother = ow.split_names(res.errors or [])
    if mode == 'j2+latin1':
        # names that went through a latin-1 pipe arrive with replacement
        # characters: compare their ASCII skeletons
        ftests = collections.Counter({ow.asciify(k): v for k, v in ftests.items()})
        etests = collections.Counter({ow.asciify(k): v for k, v in etests.items()})
        truth.fail = collections.Counter({ow.asciify(k): v for k, v in truth.fail.items()})
        truth.err = collections.Counter({ow.asciify(k): v for k, v in truth.err.items()})
    # a lone surrogate cannot travel through a UTF-8 pipe or be printed:
    # its backslash-escaped spelling is the same name
    _bs = lambda c: collections.Counter({k.encode('utf-8', 'backslashreplace').decode('utf-8'): n for k, n in c.items()})  # noqa: E731
    ftests, etests, truth.fail, truth.err = _bs(ftests), _bs(etests), _bs(truth.fail), _bs(truth.err)
    if ftests != truth.fail or flayers or fsubs or fother:
        V('failure_list', 'Runner.failures=%s really failed=%s' % (res.failures, dict(truth.fail)))
    if etests != truth.err or esubs or eother:
        V('error_list', 'Runner.errors=%s really errored=%s' % (res.errors, dict(truth.err)))
    msg = truth.layer_err_ok(elayers)
    if msg:
        V('layer_entries', msg)
    if v >= 1:
        text = runrt.strip_ansi(res.out_own.decode('utf-8', 'replace'))
        for hdr, lst in (('Tests with failures:', res.failures), ('Tests with errors:', res.errors)):
            names = runrt.parse_name_list(text, hdr)
            if (names or []) != [x.encode('utf-8', 'backslashreplace').decode('utf-8') for x in (lst or [])]:
                V('printed_name_list', '%s printed %s, runner holds %s' % (hdr, names, lst))
    nt = bool(kinds or lf or bm)
    return {'nontrivial': nt, 'violations': viol,
            'outcome': (T, F, E, S) if T < 3 else (F, E, S),
            'counters': {'with_children': 1 if res.children else 0,
                         'total_lines_checked': 1 if m else 0}}
