"""C13 — buffered output is attributed correctly; std streams restored."""
import itertools
import os
import shutil

from vt import monitors
from vt import runrt
from vt import worlds

ID = 'C13'
LEVEL = 'exploration'
RULE = ('histories = every sequence of <=L tests in one layer (with per-test '
        'layer hooks), each test = outcome kind (21 kinds, incl. tests with '
        'two or more result events, passing subtests, a skip inside a subtest, tests that redirect, replace or save/restore sys.stdout themselves) x write pattern (nothing | stdout with / '
        'without newline | stderr | bytes through .buffer | both streams | '
        'write in setUp | before and after the subtests | inside a passing subtest), every write carrying a token unique to (test, '
        'stream); run with --buffer on and off, with the layer in a -j2 / resumed subprocess, and with --buffer -D; tokens are searched in the '
        'captured runner stdout/stderr and stream identity is sampled at '
        'every trace event; non-trivial = >=1 write and >=1 non-pass outcome')
ASSUMPTIONS = [
    'tests that re-install a stream object they saved themselves (redirect_stdout around a failing subtest, save in setUp / restore in tearDown) are judged on what they wrote before, on stream identity between tests and on containment only',
    'a write "happened" if the phase containing it was reached according to the trace',
    'output written by a test after its first result event (e.g. in tearDown after a failing body) goes to the real streams and only has to stay inside that test\'s window',
]
BOUND = {
    'quick': 'all histories of length 1 and 2 (189 + 189^2) x buffer on/off with the plain formatter; with the XML wrapper and the colour formatter (buffer on): all of length 1 and those of length 2 whose first test writes nothing or to both streams',
    'thorough': 'all histories of length <=3 with --buffer (189^3), length <=2 without',
}
CHUNK = 256

KINDS = ['pass', 'fail', 'error', 'skip_body', 'skip_setup', 'skip_dec',
         'xfail', 'uxs', 'teardown_err', 'body+teardown', 'fail+teardown',
         'sub:1,0,1', 'sub:2,0,0', 'setup_err', 'cleanup_err',
         'sub:0,0,2', 'sub_skip', 'redir_sub_fail', 'leave_replaced',
         'swap_fail', 'swap_pass', 'nested_fail',
         # tests that close the capture buffers (what they wrote before is gone
         # with the stream they closed; judged on the other clauses only)
         'close_out', 'close_fail']
WRITES = ['none', 'o', 'o-', 'e', 'ob', 'oe', 'ws', 'w2', 'wsub']
SHOWN = {'fail', 'error', 'uxs', 'teardown_err', 'body+teardown',
         'fail+teardown', 'sub:1,0,1', 'sub:2,0,0', 'setup_err', 'cleanup_err',
         'redir_sub_fail', 'swap_fail', 'nested_fail'}
# tests that touch sys.stdout themselves: only meaningful with --buffer (without
# it the runner never looks at the streams, so it cannot be blamed for them)
# (under -D the test runs through debug(): an expected failure raises there)
QUIET = {'pass', 'skip_body', 'skip_setup', 'skip_dec', 'sub:0,0,2', 'swap_pass'}
TOUCHES = {'leave_replaced'}
# tests that put back a stream object they saved earlier (contextlib.
# redirect_stdout does): what they write after that goes wherever they pointed
# sys.stdout themselves and is not judged
REINSTALLS = {'redir_sub_fail', 'swap_fail', 'swap_pass', 'close_out', 'close_fail'}


def _o_filter(case):
    seq, buf, fmt = case
    return buf and fmt == 'plain' and len(seq) == 2 and seq[0][1] in ('oe', 'o', 'e') and seq[1][1] in ('none', 'o', 'e-') \
        and seq[0][0] in ('pass', 'fail', 'skip_body', 'sub:0,0,2')


ENV_PASSES = [{'name': 'python -O', 'argv': ['-O'], 'env': {}, 'filter': _o_filter}]


def _tests():
    return [(k, w) for k in KINDS for w in WRITES]


def cases(tier, seed):
    alpha = worlds.rot(_tests(), seed)
    L = 2 if tier == 'quick' else 3
    for ln in range(1, L + 1):
        for seq in itertools.product(alpha, repeat=ln):
            yield [list(map(list, seq)), True, 'plain']
            if ln <= 2 and not any(k in TOUCHES for k, w in seq):
                yield [list(map(list, seq)), False, 'plain']
            if ln == 1 or (ln == 2 and seq[0][1] in ('oe', 'e')):
                # the layer runs in a subprocess (-j2 / resumed): the child's
                # sys.stderr is aliased to its stdout
                if not any(k in TOUCHES or k in REINSTALLS for k, w in seq):
                    yield [list(map(list, seq)), True, 'j2']
                    yield [list(map(list, seq)), True, 'resumed']
            if ln <= 2 and any(k.startswith('sub') for k, w in seq) and not any(k in TOUCHES or k in REINSTALLS for k, w in seq):
                # verbosity 4 and more reports more events (passing subtests ...)
                yield [list(map(list, seq)), True, 'v4']
                if ln == 1:
                    yield [list(map(list, seq)), True, 'v5c']
            if all(k in QUIET for k, w in seq) and ln <= 2:
                # --buffer together with -D: nothing fails, so pdb never starts
                yield [list(map(list, seq)), True, 'D']
            if ln == 1 or (ln == 2 and (tier == 'thorough' or seq[0][1] in ('oe', 'none'))):
                # other output formatters sit between the result and the text
                yield [list(map(list, seq)), True, 'xml']
                yield [list(map(list, seq)), True, 'color']


def build_spec(seq, fmt='plain'):
    layers = [{'n': 'A', 'b': [], 'k': 'c', 'h': list(worlds.HOOKS_ALL)}]
    tests = []
    if fmt == 'resumed':
        # a first layer that cannot be torn down: layer A is resumed in a child
        layers.insert(0, {'n': '0first', 'b': [], 'k': 'i', 'h': list(worlds.HOOKS_SD),
                          'f': {'tearDown': 'NIE'}})
        tests.append({'n': 'z', 'l': '0first', 's': 'pass'})
    ntests0 = len(tests)
    for i, (k, w) in enumerate(seq):
        t = {'n': 'q%d' % i, 'l': 'A', 's': k}
        o, e = 'TOK%do' % i, 'TOK%de' % i
        if w == 'o':
            t['w'] = [['o', o + '\n', False]]
        elif w == 'o-':
            t['w'] = [['o', o, False]]
        elif w == 'e':
            t['w'] = [['e', e + '\n', False]]
        elif w == 'ob':
            t['w'] = [['o', o + '\n', True]]
        elif w == 'oe':
            t['w'] = [['o', o + '\n', False], ['e', e + '\n', False]]
        elif w == 'ws':
            t['ws'] = [['o', o + '\n', False], ['e', e, False]]
        elif w == 'w2':
            # before the script and after it returned (after the subtests)
            t['w'] = [['o', o + '\n', False]]
            t['w2'] = [['o', 'TOK%da\n' % i, False], ['e', 'TOK%db\n' % i, False]]
        elif w == 'wsub':
            t['wsub'] = [['o', 'TOK%ds\n' % i, False]]
        tests.append(t)
    return {'layers': layers, 'tests': tests}


def child_mode_viol(seq, spec, res, fmt):
    """The layer ran in a subprocess: every token of a failing test that was
    written appears exactly once in what the parent shows, quiet ones never."""
    out = []
    text = res.out + res.err
    reached = {}
    for ev in res.trace:
        if ev[1] == 't' and ev[3] in ('setUp', 'body', 'w2', 'wsub'):
            reached.setdefault(ev[2], set()).add(ev[3])
    if not res.children:
        out.append(('harness_no_children', '', {}))
    for i, (k, w) in enumerate(seq):
        tid = 'q%d' % i
        t = [x for x in spec['tests'] if x['n'] == tid][0]
        for key, phase in (('w', 'body'), ('ws', 'setUp'), ('w2', 'w2'), ('wsub', 'wsub')):
            for stream, txt, via in t.get(key) or []:
                tok = txt.strip().encode()
                n = text.count(tok)
                did = phase in reached.get(tid, ())
                if k in SHOWN and did:
                    if n != 1:
                        out.append(('failing_output_not_shown_once', 'token %s (%s stream) of %s test %s shown %d times by the parent of a %s run' % (tok, stream, k, tid, n, fmt), {'script': k, 'w': w, 'stream': stream}))
                elif n:
                    out.append(('quiet_output_leaked', 'token %s of %s test %s appears in the output of a %s run' % (tok, k, tid, fmt), {'script': k, 'w': w}))
    return out


def setup_worker():
    runrt._mods()


def history_key(case):
    """second run in one process: one history per (outcome, buffering,
    formatter) among the single-test histories that write to both streams"""
    if len(case) == 3 and len(case[0]) == 1 and case[0][0][1] == 'ws' and case[0][0][0] in ('pass', 'fail', 'sub_skip', 'uxs'):
        if (case[1], case[2]) in ((True, 'plain'), (False, 'plain'), (True, 'xml')):
            return (case[0][0][0], case[1], case[2])
    return None


HISTORY_MAX = 10


def run_case(case):
    seq, buf, fmt = case
    spec = build_spec(seq, fmt)
    argv = ['--buffer'] if buf else []
    stdin = None
    if fmt == 'j2':
        argv += ['-j2']
    elif fmt == 'v4':
        argv += ['-vvvv']
    elif fmt == 'v5c':
        argv += ['-vvvvv', '-c']
    elif fmt == 'D':
        argv += ['-D']
        import io
        stdin = io.StringIO('c\n' * 10)
    xmldir = None
    if fmt == 'xml':
        xmldir = '/dev/shm/vt-c13-%d' % os.getpid()
        argv += ['--xml', xmldir]
    elif fmt == 'color':
        argv += ['-c']
    try:
        res = runrt.run_world(spec, argv, stdin=stdin)
    finally:
        if xmldir:
            shutil.rmtree(xmldir, ignore_errors=True)
    viol = []

    def V(clause, detail, **sig):
        viol.append({'clause': clause, 'sig': dict(sig, buf=buf, fmt=fmt),
                     'detail': str(detail) + '\nseq=%s' % (seq,)})
    if res.escaped:
        V('run_aborted', res.escaped_tb, exc=res.escaped)
    if fmt in ('j2', 'resumed'):
        for clause, detail, sg in child_mode_viol(seq, spec, res, fmt):
            V(clause, detail, **sg)
        if res.streams_after != (True, True) and not res.escaped:
            V('streams_not_restored_after_run', res.streams_after)
        return {'nontrivial': True, 'violations': viol, 'outcome': (buf, fmt, len(seq), bool(res.escaped))}
    # windows and phases per test from the trace
    win = {}
    reached = {}
    for ev in res.trace:
        if ev[1] == 't':
            tid, what = ev[2], ev[3]
            if what == 'run>':
                win[tid] = [ev[-2], ev[-1], None, None]
                if not (ev[-4] and ev[-3]):
                    V('streams_not_restored_between_tests', 'at start of %s: stdout original=%s stderr original=%s' % (tid, ev[-4], ev[-3]), at='run>')
            elif what == 'run<':
                win[tid][2], win[tid][3] = ev[-2], ev[-1]
                if not (ev[-4] and ev[-3]):
                    V('streams_not_restored_between_tests', 'at end of %s: stdout original=%s stderr original=%s' % (tid, ev[-4], ev[-3]), at='run<', script=spec['tests'][int(tid[1:])]['s'])
            elif what in ('setUp', 'body', 'w2', 'wsub'):
                reached.setdefault(tid, set()).add(what)
        if buf and ev[1] == 'L' and not (ev[-4] and ev[-3]):
            # the layer's hooks (setUp/tearDown and the per-test ones) run
            # between tests
            V('streams_not_restored_between_tests', 'in layer hook %s: stdout original=%s stderr original=%s' % (ev[2:5], ev[-4], ev[-3]), at='L:' + str(ev[3]))
        if not buf and not (ev[-4] and ev[-3]) and (ev[1] == 'L' or ev[3] in ('run>', 'run<', 'setUp', 'tearDown')):
            # (events inside a test body may see the test's own redirection)
            V('streams_replaced_without_buffer', 'event %s' % (ev,))
    if res.streams_after != (True, True) and not res.escaped:
        V('streams_not_restored_after_run', res.streams_after)
    out, err = res.out, res.err
    if buf:
        for i, (k, w) in enumerate(seq):
            tid = 'q%d' % i
            t = spec['tests'][i]
            happened = []
            if 'w' in t and 'body' in reached.get(tid, ()):
                happened += t['w']
            if 'ws' in t and 'setUp' in reached.get(tid, ()):
                happened += t['ws']
            if 'w2' in t and 'w2' in reached.get(tid, ()):
                happened += t['w2']
            if 'wsub' in t and 'wsub' in reached.get(tid, ()):
                happened += t['wsub']
            judged = (t.get('w') or []) + (t.get('ws') or []) + (t.get('wsub') or [])
            if k not in REINSTALLS:
                judged += (t.get('w2') or [])
            for stream, text, via in judged:
                tok = text.strip().encode()
                cap, a, b = (out, 0, 2) if stream == 'o' else (err, 1, 3)
                n = cap.count(tok)
                other = (err if stream == 'o' else out).count(tok)
                did = [stream, text, via] in happened
                if k in SHOWN and did:
                    if n != 1 or other:
                        V('failing_output_not_shown_once', 'token %s of %s test %s occurs %d times in its stream capture, %d in the other' % (tok, k, tid, n, other), script=k, w=w)
                    else:
                        p = cap.find(tok)
                        lo, hi = win[tid][a], win[tid][b]
                        if not (lo <= p and (hi is None or p < hi)):
                            V('output_attributed_to_other_test', 'token %s of %s shown at %d outside its window [%s,%s)' % (tok, tid, p, lo, hi), script=k, w=w)
                        else:
                            hdr = b'in test test_%s ' % tid.encode()
                            hp = out.rfind(hdr, 0, len(out))
                            hfirst = out.find(hdr)
                            if stream == 'o' and (hfirst < 0 or hfirst > p):
                                V('output_before_its_header', 'token %s at %d, header of %s at %d' % (tok, p, tid, hfirst), script=k, w=w)
                else:
                    if n or other:
                        V('quiet_output_leaked', 'token %s of %s test %s (write happened: %s) occurs in the runner output' % (tok, k, tid, did), script=k, w=w)
    nt = any(w != 'none' for k, w in seq) and any(k != 'pass' for k, w in seq)
    return {'nontrivial': nt, 'violations': viol,
            'outcome': (buf, fmt, len(seq), bool(res.escaped))}
