"""C16 — --stop-on-error stops after the first bad outcome, still cleans up."""
import collections
import itertools

from vt import monitors
from vt import runrt
from vt import worlds

ID = 'C16'
LEVEL = 'exploration'
RULE = ('worlds = k<=3 layers (independent | chain | with unit layer) with '
        '1..T tests each; the first bad item is placed at every test position '
        '(every bad outcome kind) or is a layer whose setUp raises (every '
        'layer); tests after it alternate pass/fail; run with -x combined with '
        '{nothing, --repeat 2, --shuffle (2 seeds), -j2, resumed children (a '
        'first layer that cannot be torn down), the bad test\'s own layer not tear-downable, the resumed child that ran the bad test dying before / while it reports}; oracle on the trace of every '
        'process; non-trivial = the bad item is not the very last item of the '
        'run')
ASSUMPTIONS = [
    'a test has "recorded" its failure when its run() returns (run< event); a later run> in the same process is a violation',
    '"sequential run" = no -j option; layers resumed in subprocesses after a tearDown raised NotImplementedError still belong to a sequential run',
]
BOUND = {
    'quick': 'k<=3 layers x T<=2 tests per layer x 3 shapes x every position x 14 bad kinds (+ layer setUp failure at every layer) x 11 option vectors',
    'thorough': 'same with T<=3 and additionally two shuffle seeds x --repeat 2 and -j3',
}
CHUNK = 128

BAD = ['fail', 'error', 'uxs', 'sub:1,0,1', 'sub:0,1,1', 'sub:2,0,0',
       'setup_err', 'teardown_err', 'cleanup_err', 'body+teardown', 'sysexit',
       # the failing test also writes to the real fd 2: bytes that are not
       # UTF-8 / a line that ends in three integers
       'fail~fd2b', 'error~fd2t',
       # ... or has a str() that reads like a report header without names
       'fail~str100']
NOISE = {'fd2b': [['fd2b', 'caf\xe9 \xff\xfe\n', False]],
         'fd2t': [['fd2', 'pool statistics (idle busy dead): 4 0 0\n', False]]}
OPTS = {
    'x': ['-x'],
    'x+rep': ['-x', '--repeat', '2'],
    'x+shuf1': ['-x', '--shuffle', '--shuffle-seed', '1'],
    'x+shuf2': ['-x', '--shuffle', '--shuffle-seed', '2'],
    'x+j2': ['-x', '-j2'],
    'x+nie': ['-x'],
    'x+nie+rep': ['-x', '--repeat', '2'],
    'x+v': ['-x', '-vv'],
    'x+j3': ['-x', '-j3'],
    'x+shuf1+rep': ['-x', '--shuffle', '--shuffle-seed', '1', '--repeat', '2'],
    'x+buf': ['-x', '--buffer'],
    # the layer that holds the first bad test cannot be torn down (its bases
    # still must be)
    'x+nietop': ['-x'],
    'x+nietop+rep': ['-x', '--repeat', '2'],
    # resumed children; the child that ran the first bad test dies before it
    # has reported anything / sends half a report
    'x+nie+cfempty': ['-x'],
    'x+nie+cfcut': ['-x', '-v'],
}


def _o_filter(case):
    return case[0] != 'xj' and case[4] in ('x', 'x+rep', 'x+nie') and case[0] <= 2


ENV_PASSES = [{'name': 'python -O', 'argv': ['-O'], 'env': {}, 'filter': _o_filter}]


def run_xj_case(v):
    """Real processes, -x -j2: the failing test of layer A only fails once a
    slow test of layer B is running in the sibling process.  Whatever the
    parent does about B, the layers B's process set up are torn down and its
    summary is printed."""
    layers = [{'n': L, 'b': [], 'k': 'c', 'h': list(worlds.HOOKS_SD)} for L in 'ABC']
    tests = [{'n': 'a0', 'l': 'A', 's': 'fail', 'acts': [['wait', 'b_running', 30]]},
             {'n': 'a1', 'l': 'A', 's': 'pass'},
             {'n': 'b0', 'l': 'B', 's': 'pass', 'acts': [['touch', 'b_running'], ['wait', 'never', 2]], 'e': None},
             {'n': 'b1', 'l': 'B', 's': 'pass'},
             {'n': 'c0', 'l': 'C', 's': 'pass'}]
    # b0 waits 2 s for a file that never comes: its barrier "timeout" is an
    # AssertionError, i.e. B has a failing test of its own after 2 s
    spec = {'layers': layers, 'tests': tests}
    res = runrt.run_cli(spec, ['-x', '-j2'] + (['-' + 'v' * v] if v else []), timeout=120)
    viol = []
    sig = {'kind': 'fail', 'opt': 'x+j2 real'}
    ups = collections.Counter()
    for ev in res.trace:
        if ev[1] == 'L' and ev[4] == '<':
            if ev[3] == 'setUp':
                ups[(ev[0], ev[2])] += 1
            elif ev[3] == 'tearDown':
                ups[(ev[0], ev[2])] -= 1
    left = {k: n for k, n in ups.items() if n}
    d = 'real processes, -x -j2 -v%d, layer A fails while a test of layer B is running: ' % v
    if left:
        viol.append({'clause': 'layer_not_torn_down', 'sig': sig, 'detail': d + 'set up and never torn down (pid, layer): %s\n%s' % (sorted(left), res.text[-800:])})
    if res.rc != 1:
        viol.append({'clause': 'verdict_not_failed', 'sig': sig, 'detail': d + 'exit status %r' % (res.rc,)})
    if not runrt.TOTAL_RE.search(res.text):
        viol.append({'clause': 'no_summary', 'sig': sig, 'detail': d + res.text[-600:]})
    return viol


def cases(tier, seed):
    for v in (0, 2):
        yield ['xj', v, None, None, None]
    T = 2 if tier == 'quick' else 3
    optkeys = ['x', 'x+rep', 'x+shuf1', 'x+shuf2', 'x+j2', 'x+nie', 'x+nie+rep',
               'x+nietop', 'x+nietop+rep', 'x+nie+cfempty', 'x+nie+cfcut']
    if tier == 'thorough':
        optkeys += ['x+v', 'x+j3', 'x+shuf1+rep', 'x+buf']
    bad = worlds.rot(BAD, seed)
    for k in (1, 2, 3):
        for shape in ('indep', 'chain', 'unit', 'dup'):
            if shape == 'unit' and k == 1:
                continue
            if shape == 'dup' and k != 3:
                continue
            for counts in itertools.product(range(1, T + 1), repeat=k):
                total = sum(counts)
                if shape == 'dup' and counts[0] + counts[1] != 2:
                    continue          # (all tests sit on the third layer: one world per total)
                for pos in range(total):
                    for kind in bad:
                        for ok in optkeys:
                            if shape == 'dup' and ('nie' in ok or 'cf' in ok):
                                continue
                            if ('nietop' in ok or '+cf' in ok) and _layer_of(shape, counts, pos) is None:
                                continue      # the bad test is a unit test: no layer / no child involved
                            yield [k, shape, list(counts), ['t', pos, kind], ok]
                for li in range(k):
                    if (shape == 'unit' and li == 0) or shape == 'dup':
                        continue
                    for ok in optkeys:
                        if 'nietop' in ok or '+cf' in ok:
                            continue
                        yield [k, shape, list(counts), ['L', li, 'ValueError'], ok]


def _layer_of(shape, counts, pos):
    """index of the layer that holds test number pos (None: the unit layer)"""
    if shape == 'dup':
        return 2
    i = 0
    for li, c in enumerate(counts):
        if pos < i + c:
            return None if (shape == 'unit' and li == 0) else li
        i += c


def build_spec(case):
    k, shape, counts, bad, ok = case
    names = list('BCD')[:k]
    layers = []
    if 'nie' in ok.split('+'):
        layers.append({'n': 'A', 'b': [], 'k': 'c', 'h': list(worlds.HOOKS_SD),
                       'f': {'tearDown': 'NIE'}})
    tests = []
    if 'nie' in ok.split('+'):
        tests.append({'n': 'a0', 'l': 'A', 's': 'pass'})
    idx = 0
    for i, nm in enumerate(names):
        if shape == 'unit' and i == 0:
            lay = None
        else:
            bases = []
            if shape == 'dup' and i == 2:
                # two distinct layer objects with ONE name (a layer class
                # instantiated twice) are the bases of the layer with the tests
                bases = [names[0], names[1]]
            if shape == 'chain' and i > 0:
                bases = [names[i - 1]]
            if shape == 'unit' and i > 1:
                bases = [names[i - 1]]
            L = {'n': nm, 'b': bases, 'k': 'c', 'h': list(worlds.HOOKS_SD)}
            if shape == 'dup':
                L['k'] = 'i'
                if i < 2:
                    L['rn'] = 'Srv'
            if bad[0] == 'L' and bad[1] == i:
                L['f'] = {'setUp': bad[2]}
            if 'nietop' in ok.split('+') and bad[0] == 't' and _layer_of(shape, counts, bad[1]) == i:
                L['f'] = {'tearDown': 'NIE'}
            layers.append(L)
            lay = nm if shape != 'dup' else names[2]
        for j in range(counts[i]):
            if bad[0] == 't':
                if idx < bad[1]:
                    s = 'pass'
                elif idx == bad[1]:
                    s = bad[2]
                else:
                    s = 'pass' if (idx - bad[1]) % 2 else 'fail'
            else:
                s = 'pass'
            t = {'n': 'q%d%s' % (idx, nm), 'l': lay, 's': s}
            if s.endswith('~str100'):
                t['s'] = s.split('~')[0]
                t['strv'] = '1 0 0'
            elif '~' in s:
                t['s'], nz = s.split('~')
                t['w'] = NOISE[nz]
            tests.append(t)
            idx += 1
    return {'layers': layers, 'tests': tests}, list(OPTS[ok])


def setup_worker():
    runrt._mods()


def history_key(case):
    """second run in one process: the first test of two independent layers
    fails, under every option vector"""
    if case[0] == 2 and case[1] == 'indep' and case[2] == [1, 1] and case[3] == ['t', 0, 'fail']:
        return case[4]
    if case[0] == 2 and case[1] == 'chain' and case[2] == [2, 1] and case[3] == ['t', 1, 'error'] and case[4] == 'x':
        return 'chain'
    return None


HISTORY_MAX = 12


def run_case(case):
    if case[0] == 'xj':
        return {'evals': 1, 'nontrivial': 1, 'violations': run_xj_case(case[1]), 'outcome': 'xj', 'nogate': True}
    k, shape, counts, bad, ok = case
    spec, argv = build_spec(case)
    hook = None
    cf = [o for o in ok.split('+') if o.startswith('cf')]
    if cf:
        target = 'vtw.tests.' + list('BCD')[_layer_of(shape, counts, bad[1])]

        def hook(layer, args):
            if layer != target:
                return None
            if cf[0] == 'cfempty':
                return ('mangle', lambda out, err: (out[:len(out) // 2], b''))
            return ('mangle', lambda out, err: (out, err[:max(1, len(err) - 4)]))
    res = runrt.run_world(spec, argv, child_hook=hook)
    sv = monitors.SpecView(spec)
    opts = ok.split('+')
    sequential = not any(o.startswith('j') for o in opts)
    sig = {'opt': ok, 'kind': bad[2] if bad[0] == 't' else 'layer_setUp'}
    viol = []

    def V(clause, detail):
        viol.append({'clause': clause, 'sig': dict(sig),
                     'detail': detail + '\nargv=%s spec=%s' % (argv, spec)})
    if res.escaped:
        V('run_aborted', res.escaped_tb or res.escaped)
    per = {}
    for ev in res.trace:
        per.setdefault(ev[0], []).append(ev[1:-4])
    any_bad = False
    bad_seen_global = False
    for vpid in sorted(per):
        badseen = None
        for ev in per[vpid]:
            if ev[0] == 't':
                tid, what = ev[1], ev[2]
                if what == 'run>':
                    if badseen:
                        V('test_started_after_bad', 'process %s: test %s starts after %s had recorded a bad outcome' % (vpid, tid, badseen))
                elif what == 'run<':
                    s = sv.tests[tid]['s']
                    if worlds.outcome_counts(s)[3] and not badseen:
                        badseen = 'test ' + tid
            elif ev[0] == 'L' and ev[2] == 'setUp':
                if ev[3] == '>':
                    if sequential and (badseen or (bad_seen_global and vpid != 0)):
                        V('layer_set_up_after_bad', 'process %s: layer %s set up after a bad outcome (%s) in a sequential run' % (vpid, ev[1], badseen or 'in an earlier process'))
                elif ev[3] == '!':
                    if not badseen:
                        badseen = 'layer %s.setUp' % ev[1]
        if badseen:
            any_bad = True
            bad_seen_global = True
    for clause, detail in monitors.check_layer_stack(sv, res):
        if clause == 'left_set_up':
            V('layer_not_torn_down', detail)
    if any_bad:
        if res.failed is not True:
            V('verdict_not_failed', 'failed=%r' % (res.failed,))
        if bad[0] == 't' and not runrt.RAN_RE.search(res.text):
            V('no_summary', res.text[-600:])
    else:
        V('harness_bad_item_never_reached', 'trace has no bad outcome: %s' % (res.trace[:30],))
    total = sum(counts)
    nt = not (bad[0] == 't' and bad[1] == total - 1 and 'rep' not in opts)
    return {'nontrivial': nt, 'violations': viol,
            'outcome': (ok, len(res.children), bool(res.escaped)),
            'counters': {'with_children': 1 if res.children else 0}}
