"""C17 — XML reports are well-formed and agree with the run."""
import collections
import os
import shutil
import xml.etree.ElementTree as ET
import xml.parsers.expat

from vt import ow
from vt import runrt
from vt import worlds

ID = 'C17'
LEVEL = 'exploration'
RULE = ('(i) every Unicode code point U+0000..U+10FFFF is placed in an '
        'exception message (blocks of 2048 code points per run; a block whose '
        'report does not parse is bisected down to single code points, so each '
        'code point is decided individually; code points below U+0100 and the XML-special ones are also placed alone), and the same for the BMP in a '
        'test method name, a test class name, a doctest name, a doctest file '
        'path and an exception class name, and every code point in doctest '
        'output (expected/actual diff and an exception raised by an example); '
        '(ii) a list of hostile strings (markup characters, '
        ']]>, CR/LF, 100 kB, multi-line, lone surrogates in both orders, NUL) '
        'in messages, subtest parameters and method names; (iii) every outcome '
        'kind x --repeat {1,2}; 4 layer shapes whose layers run in resumed / -j2 / -j3 subprocesses: every report must parse with expat, suite '
        'attributes must equal element counts, passing tests appear once per '
        'iteration, every failure/error is a testcase with the test\'s own '
        'class and name. non-trivial = every case (each block holds distinct '
        'code points)')
ASSUMPTIONS = [
    'well-formedness is judged by expat (strict XML 1.0 parser)',
    'doctest cases are DocTestCase/DocFileCase objects built from generated sources (manuel is not installed)',
    'code points Python itself refuses in a type name, attribute name or file name (NUL, lone surrogates) are not inputs',
    'class names are kept below the 255-byte file name limit',
]
BOUND = {'quick': 'all 1114112 code points in messages, doctest output and exception class names; BMP code points in method, class, doctest and doctest-file names; 10 doctest shapes; 18 strings x 3 places; 16 outcome kinds x repeat{1,2}',
         'thorough': 'same plus all code points in subtest parameters and two-code-point combinations of the 40 XML-special code points'}
CHUNK = 2
BLK = 2048
CBLK = 64
DKINDS = ['string:pass', 'string:fail:diff', 'string:fail:exc', 'file:pass',
          'file:fail:diff', 'file:fail:exc', 'string:fail:diff:dotted',
          'string:pass:nodot', 'file:pass:deep', 'file:fail:diff:dots']

STRINGS = ['<&>"\'', ']]>', 'a\r\nb', 'x' * 100000, 'line1\nline2\n\nline4',
           '𐀀', '\udc00\ud800', '\x00', 'tab\there', '&amp;<![CDATA[',
           '\x1b[31mred\x1b[0m', '￾￿', '', '_1.5', '_v1.2.3',
           ' (x.y)', '[a-b]', 'é.ü']
KINDS = ['pass', 'fail', 'error', 'xfail', 'uxs', 'sub:1,0,1', 'sub:2,0,0',
         'sub:0,1,1', 'skip_dec', 'skip_body', 'body+teardown', 'fail+teardown',
         'setup_err', 'teardown_err', 'cleanup_err', 'sysexit']


def _c_filter(case):
    # non-ASCII text in messages / names, outcome kinds, doctests
    if case[0] == 'singles':
        # (class names become FILE names: what the locale's file system
        # encoding cannot spell is not the runner's to fix)
        return case[1] in ('cp_msg', 'cp_name') and any(c > 127 for c in case[2])
    return case[0] in ('str', 'kind', 'dkind') or (case[0] == 'cp_msg' and case[1] in (0, 0x2000, 0x10000))


# the report files are written with open(..., 'w'): under a non-UTF-8 locale
# that is another encoding
ENV_PASSES = [{'name': 'C locale', 'argv': ['-X', 'utf8=0'],
               'env': {'LC_ALL': 'C', 'LANG': 'C', 'PYTHONUTF8': '0', 'PYTHONCOERCECLOCALE': '0', 'PYTHONIOENCODING': 'utf-8'},
               'filter': _c_filter}]


def cases(tier, seed):
    for start in worlds.rot(range(0, 0x110000, BLK), seed):
        yield ['cp_msg', start, min(0x110000, start + BLK)]
    for start in range(0, 0x10000, BLK):
        yield ['cp_name', start, start + BLK]
    # class names end up in the suite's name attribute and in the report's
    # file name (<= 255 bytes): small blocks
    for start in range(0, 0x10000, CBLK):
        yield ['cp_cls', start, min(0x10000, start + CBLK)]
        yield ['cp_dname', start, min(0x10000, start + CBLK)]
        yield ['cp_dfile', start, min(0x10000, start + CBLK)]
    for start in range(0, 0x110000, BLK):
        yield ['cp_dmsg', start, min(0x110000, start + BLK)]
        yield ['cp_etype', start, min(0x110000, start + BLK)]
    for k in DKINDS:
        for rep in (1, 2):
            yield ['dkind', k, rep]
    # alone: a code point in the company of 2047 others may take a different
    # path through the escaping code (pure-ASCII text, short text)
    singles = list(range(0, 0x100)) + [0x2028, 0x2029, 0xd7ff, 0xd800, 0xdbff, 0xdc00, 0xdfff,
                                       0xe000, 0xfffd, 0xfffe, 0xffff, 0x10000, 0x10ffff]
    if tier == 'thorough':
        singles = list(range(0, 0x10000)) + [0x10000, 0x1f600, 0x10ffff]
    for place in ('cp_msg', 'cp_name', 'cp_cls', 'cp_dname', 'cp_dfile', 'cp_dmsg', 'cp_etype'):
        for i in range(0, len(singles), 32):
            yield ['singles', place, singles[i:i + 32]]
    for i in range(len(STRINGS)):
        for place in ('msg', 'subp', 'name'):
            yield ['str', i, place]
    # suite names longer than a file name can be (255 bytes), several of them
    # with the same head / the same tail (each suite still needs a report of
    # its own)
    for place in ('cls', 'dname', 'dfile'):
        for n in (120, 236, 250, 300, 1000):
            yield ['long', place, n]
    for k in KINDS:
        for rep in (1, 2):
            yield ['kind', k, rep]
        # the same with test case objects that are falsy
        yield ['kind', k, 'len']
        yield ['kind', k, 'bool']
    yield ['import_error', None, None]
    yield ['two_classes_subtests', None, None]
    # --xml together with --buffer: what a failing test wrote before it failed
    for sub in (list(range(0, 32)), [0x7f, 0x85, 0x1b, 0x08], [0xfffe, 0xffff, 0xd800]):
        for mode in ('seq', 'j2'):
            yield ['buffered', sub, mode]
    # a RELATIVE --xml directory and a test that changes the working directory
    for mode in ('seq', 'j2'):
        yield ['relxml', mode, None]
    # layers that run in subprocesses write their own report files into the
    # same directory: nothing may be lost or overwritten
    for shape in ('N1B2C1', 'A2B1i', 'A1B1C1d', 'U1A2'):
        for mode in (['seq'] if shape == 'N1B2C1' else []) + ['-j2', '-j3']:
            for k in ('pass', 'fail', 'error', 'sub:1,1,1'):
                yield ['modes', [shape, k], mode]
    if tier == 'thorough':
        for start in range(0, 0x110000, BLK):
            yield ['cp_subp', start, min(0x110000, start + BLK)]
        sp = [0, 1, 8, 9, 10, 11, 12, 13, 0x1f, 0x20, 0x26, 0x3c, 0x3e, 0x22, 0x27,
              0x5d, 0x7f, 0x85, 0xa0, 0xd7ff, 0xd800, 0xdbff, 0xdc00, 0xdfff,
              0xe000, 0xfffd, 0xfffe, 0xffff, 0x10000, 0x10ffff]
        for a in sp:
            yield ['pairs', a, sp]


import re
ILLEGAL = re.compile('[^\t\n\r\x20-\ud7ff\ue000-\ufffd\U00010000-\U0010ffff]')


def setup_worker():
    runrt._mods()
    global XDIR
    XDIR = '/dev/shm/vt-c17-%d' % os.getpid()
    import atexit
    atexit.register(shutil.rmtree, XDIR, True)


def run_xml(spec, extra=()):
    shutil.rmtree(XDIR, ignore_errors=True)
    res = runrt.run_world(spec, ['--xml', XDIR] + list(extra), probe=False)
    files = {}
    rd = os.path.join(XDIR, 'testreports')
    if os.path.isdir(rd):
        for f in sorted(os.listdir(rd)):
            with open(os.path.join(rd, f), 'rb') as fh:
                files[f] = fh.read()
    shutil.rmtree(XDIR, ignore_errors=True)
    return res, files


def well_formed(data):
    p = xml.parsers.expat.ParserCreate()
    try:
        p.Parse(data, True)
        return None
    except xml.parsers.expat.ExpatError as e:
        return str(e)


def check_files(res, files, why):
    """-> list of (clause, detail)"""
    out = []
    if res.escaped:
        out.append(('run_aborted', '%s: %s' % (why, (res.escaped_tb or '')[-700:])))
    for f, data in files.items():
        err = well_formed(data)
        if err:
            out.append(('not_well_formed', '%s: %s: %s' % (why, f, err)))
    return out


def spec_msg(text):
    return {'layers': [], 'tests': [{'n': 'q0', 'l': None, 's': 'error', 'msg': text},
                                    {'n': 'q1', 'l': None, 's': 'pass'}]}


def spec_name(text):
    return {'layers': [], 'tests': [{'n': 'q0', 'mn': 'n' + text, 'l': None, 's': 'fail'},
                                    {'n': 'q1', 'mn': 'p' + text, 'l': None, 's': 'pass'}]}


def spec_subp(text):
    return {'layers': [], 'tests': [{'n': 'q0', 'l': None, 's': 'sub:1,1,1', 'subp': {'p': text}}]}


def spec_cls(text):
    return {'layers': [], 'tests': [{'n': 'q0', 'cls': 'N' + text, 'l': None, 's': 'fail'},
                                    {'n': 'q1', 'cls': 'P' + text, 'l': None, 's': 'pass'}]}


def spec_dname(text):
    return {'layers': [], 'tests': [{'n': 'q0', 'dt': 'string', 'dname': 'pk.n' + text + '.f' + text, 'l': None, 's': 'fail'},
                                    {'n': 'q1', 'dt': 'string', 'dname': 'pk.p' + text + '.p' + text, 'l': None, 's': 'pass'}]}


def spec_dfile(text):
    return {'layers': [], 'tests': [{'n': 'q0', 'dt': 'file', 'dfile': '/vtw/d' + text + '/n' + text + '.txt', 'l': None, 's': 'fail'},
                                    {'n': 'q1', 'dt': 'file', 'dfile': '/vtw/d' + text + '/p' + text + '.rst', 'l': None, 's': 'pass'}]}


def spec_dmsg(text):
    # line breaks would change what the doctest itself compares
    text = ''.join(c for c in text if c not in '\n\r\x0b\x0c\x1c\x1d\x1e\x85\u2028\u2029')
    return {'layers': [], 'tests': [{'n': 'q0', 'dt': 'string', 'l': None, 's': 'fail', 'dk': 'diff', 'msg': text},
                                    {'n': 'q1', 'dt': 'file', 'l': None, 's': 'fail', 'dk': 'exc', 'msg': text},
                                    {'n': 'q2', 'dt': 'string', 'l': None, 's': 'pass'}]}


def spec_etype(text):
    return {'layers': [], 'tests': [{'n': 'q0', 'l': None, 's': 'error', 'e': 'Named', 'ename': 'E' + text},
                                    {'n': 'q1', 'l': None, 's': 'pass'}]}


MAKERS = {'cp_msg': spec_msg, 'cp_name': spec_name, 'cp_subp': spec_subp,
          'cp_cls': spec_cls, 'cp_dname': spec_dname, 'cp_dfile': spec_dfile,
          'cp_dmsg': spec_dmsg, 'cp_etype': spec_etype}
# what Python itself refuses in an identifier-ish place (type names, file
# names): not inputs the runner can ever see
PY_REJECTS = {'cp_cls': lambda c: c == 0 or 0xd800 <= c <= 0xdfff,
              'cp_name': lambda c: c == 0,
              'cp_etype': lambda c: c == 0 or 0xd800 <= c <= 0xdfff,
              'cp_dfile': lambda c: c == 0 or 0xd800 <= c <= 0xdfff,
              'cp_dname': lambda c: 0xd800 <= c <= 0xdfff}


def bad_codepoints(maker, cps):
    """Bisect: which single code points make the report ill-formed / abort?"""
    def bad(cs):
        text = ''.join(map(chr, cs))
        try:
            res, files = run_xml(maker(text))
        except Exception as e:     # e.g. a NUL in an attribute name at class creation
            return 'harness: %r' % (e,)
        v = check_files(res, files, '')
        if not files and not v:
            return 'no report written'
        return v[0] if v else None
    found = []
    stack = [list(cps)]
    nruns = 0
    while stack:
        cs = stack.pop()
        nruns += 1
        why = bad(cs)
        if not why:
            continue
        if len(cs) == 1:
            found.append((cs[0], why))
            continue
        mid = len(cs) // 2
        stack.append(cs[mid:])
        stack.append(cs[:mid])
    return found, nruns


def cp_class(cp):
    if cp == 0:
        return 'NUL'
    if cp < 0x20 and cp not in (9, 10, 13):
        return 'C0 control'
    if 0xd800 <= cp <= 0xdfff:
        return 'surrogate'
    if cp in (0xfffe, 0xffff):
        return 'noncharacter FFFE/FFFF'
    return 'other'


def structure_viol(spec, res, files, rep, why):
    out = []
    truth = ow.Truth(spec, res)
    cases_seen = collections.Counter()
    for f, data in files.items():
        if well_formed(data):
            continue
        root = ET.fromstring(data)
        tcs = root.findall('testcase')
        ne = sum(len(tc.findall('error')) for tc in tcs)
        nf = sum(len(tc.findall('failure')) for tc in tcs)
        if (int(root.get('tests')), int(root.get('errors')), int(root.get('failures'))) != (len(tcs), ne, nf):
            out.append(('suite_attributes', '%s: %s tests=%s errors=%s failures=%s but %d testcase, %d error, %d failure elements' % (why, f, root.get('tests'), root.get('errors'), root.get('failures'), len(tcs), ne, nf)))
        for tc in tcs:
            kind = 'E' if tc.find('error') is not None else ('F' if tc.find('failure') is not None else 'P')
            cases_seen[(tc.get('classname'), tc.get('name'), kind)] += 1
    by = {t['n']: t for t in spec['tests']}
    for tid, n in truth.runs.items():
        t = by[tid]
        if t.get('dt'):
            # doctests: one testcase per execution, classname/name together
            # spell the doctest's own name (DocTestCase: dotted name split at
            # the last dot; DocFileCase: the file's base name), a failure
            # child exactly when it failed
            from vt import worldrt
            dn = worldrt.doctest_name(t)
            if t['dt'] == 'file':
                want_name = os.path.basename(dn)
                ok = lambda k: k[1] == want_name
            else:
                ok = lambda k: ((k[0] + '.' + k[1]) if k[0] else k[1]) == dn
            if ILLEGAL.search(t.get('dfile') or t.get('dname') or ''):
                continue
            wantk = 'F' if t['s'] == 'fail' else 'P'
            got = sum(c for k, c in cases_seen.items() if ok(k) and (k[2] == wantk or (wantk == 'F' and k[2] == 'E')))
            tot = sum(c for k, c in cases_seen.items() if ok(k))
            if got != n or tot != n:
                out.append(('doctest_testcase', '%s: doctest %s (%s) ran %d times; %d testcases of kind %s, %d in all; testcases: %s' % (why, tid, t['dt'], n, got, wantk, tot, sorted(cases_seen))))
            continue
        cls = 'vtw.tests.' + (t.get('cls') or 'T_%s' % tid)
        mname = 'test_' + t.get('mn', tid)
        if ILLEGAL.search(mname):
            # XML 1.0 cannot carry this name verbatim: any escaped spelling
            # under the right class is accepted
            mname = 'test_'
        evs = ow.script_events(t)
        bad = [e for e in evs if e[0] in 'FE']
        skipped = any(e[0] == 'S' for e in evs)
        if not bad and not skipped:
            got = sum(c for k, c in cases_seen.items() if k[0] == cls and k[2] == 'P' and (k[1] == mname or (mname == 'test_' and (k[1] or '').startswith(mname))))
            if got != n:
                out.append(('passing_test_count', '%s: passing test %s.%s appears %d times, ran %d times' % (why, cls, mname, got, n)))
        if bad:
            # a failure or an error child, under the test's own class and name
            # (subtests may append their parameters to the name)
            nhit = sum(c for k, c in cases_seen.items()
                       if k[2] != 'P' and k[0] == cls and (k[1] or '').startswith(mname))
            distinct = len({k[1] for k in cases_seen if k[2] != 'P' and k[0] == cls and (k[1] or '').startswith(mname)})
            want_distinct = len({e[1] for e in bad})
            if nhit == len(bad) * n and distinct != want_distinct:
                out.append(('failure_not_under_own_class_and_name', '%s: the %d bad events of %s.%s carry %d distinct names, the report shows %d distinct names: %s' % (why, len(bad), cls, mname, want_distinct, distinct, sorted(cases_seen))))
            if nhit != len(bad) * n:
                out.append(('failure_not_under_own_class_and_name', '%s: %d bad events of %s.%s, %d failing testcases with that classname/name; testcases: %s' % (why, len(bad) * n, cls, mname, nhit, sorted(cases_seen))))
    return out


def run_relxml(mode):
    """Real processes: --xml reports (relative) and a test that leaves the
    working directory changed."""
    import subprocess
    from vt import env
    from vt import worldrt
    root = env.scratch('vtrelxml')
    viol = []
    try:
        spec = {'layers': [{'n': 'A', 'b': [], 'k': 'c', 'h': ['setUp', 'tearDown']}],
                'tests': [{'n': 'q0', 'l': None, 's': 'chdir'}, {'n': 'q1', 'l': 'A', 's': 'chdir'},
                          {'n': 'q2', 'l': 'A', 's': 'fail'}]}
        worldrt.write_disk(spec, root)
        cmd = [env.PY, '-m', 'zope.testrunner', '--path', root, '--xml', 'reports'] + (['-j2'] if mode == 'j2' else [])
        p = subprocess.run(cmd, env=env.child_env({'VT_SCRATCH_RUN': root}), stdout=subprocess.PIPE, stderr=subprocess.STDOUT,
                           stdin=subprocess.DEVNULL, timeout=120, cwd=root)
        rd = os.path.join(root, 'reports', 'testreports')
        files = sorted(os.listdir(rd)) if os.path.isdir(rd) else []
        want = {'vtw.tests.T_q0.xml', 'vtw.tests.T_q1.xml', 'vtw.tests.T_q2.xml'}
        if set(files) != want:
            viol.append({'clause': 'no_report', 'sig': {'part': 'relxml', 'what': mode, 'strno': None},
                         'detail': '--xml reports (relative to the start directory), tests that chdir, %s: report files under <start>/reports/testreports: %s, expected %s\n%s' % (mode, files, sorted(want), p.stdout.decode('utf-8', 'replace')[-600:])})
    finally:
        env.rmtree(root)
    return {'evals': 1, 'nontrivial': 1, 'violations': viol, 'outcome': 'relxml', 'nogate': True,
            'counters': {'runner_executions': 1}}


def run_case(case):
    kind, a, b = case
    viol = []
    evals = 1
    if kind in MAKERS:
        cps = list(range(a, b))
        rej = PY_REJECTS.get(kind)
        if rej:
            # e.g. a NUL cannot be part of an attribute name at class creation
            cps = [c for c in cps if not rej(c)]
        found, evals = bad_codepoints(MAKERS[kind], cps)
        groups = collections.OrderedDict()
        for cp, why in found:
            groups.setdefault((cp_class(cp), str(why[0]) if isinstance(why, tuple) else str(why)[:40]), []).append((cp, why))
        for (cls, _), lst in groups.items():
            cp, why = lst[0]
            viol.append({'clause': 'codepoint_breaks_report',
                         'sig': {'place': kind, 'class': cls},
                         'detail': '%d code point(s) of class %r in %s break the report, e.g. U+%04X: %s' % (len(lst), cls, kind, cp, why),
                         'case': [kind, cp, cp + 1]})
        # one case = one code point decided (a clean block run decides all of
        # its code points at once; a failing block is bisected)
        return {'evals': len(cps), 'nontrivial': len(cps), 'violations': viol,
                'outcome': kind, 'counters': {'runner_executions': evals}}
    if kind == 'singles':
        place, cps = a, b
        rej = PY_REJECTS.get(place)
        n = 0
        for cp in cps:
            if rej and rej(cp):
                continue
            n += 1
            found, ev = bad_codepoints(MAKERS[place], [cp])
            evals += ev
            for cp_, why in found:
                viol.append({'clause': 'codepoint_breaks_report',
                             'sig': {'place': place, 'class': cp_class(cp_), 'alone': True},
                             'detail': 'U+%04X alone in %s: %s' % (cp_, place, why),
                             'case': ['singles', place, [cp_]]})
        return {'evals': n, 'nontrivial': n, 'violations': viol, 'outcome': 'singles',
                'counters': {'runner_executions': evals}}
    if kind == 'pairs':
        sp = b
        for c2 in sp:
            text = chr(a) + 'x' + chr(c2)
            res, files = run_xml(spec_msg(text))
            evals += 1
            for clause, detail in check_files(res, files, 'U+%04X,U+%04X' % (a, c2)):
                viol.append({'clause': clause, 'sig': {'place': 'pairs', 'class': cp_class(a) + '+' + cp_class(c2)}, 'detail': detail})
        return {'evals': len(sp), 'nontrivial': len(sp), 'violations': viol, 'outcome': kind,
                'counters': {'runner_executions': evals}}
    if kind == 'str':
        text = STRINGS[a]
        place = b
        spec = {'msg': spec_msg, 'subp': spec_subp, 'name': spec_name}[place](text if place != 'name' else text[:200].replace('\x00', ''))
        rep = 1
        why = 'string #%d %r in %s' % (a, text[:30], place)
        res, files = run_xml(spec)
    elif kind == 'dkind':
        rep = b
        parts = a.split(':')
        t = {'n': 'q1', 'l': 'A', 'dt': parts[0], 's': parts[1]}
        if len(parts) > 2 and parts[2] in ('diff', 'exc'):
            t['dk'] = parts[2]
        if 'dotted' in parts:
            t['dname'] = 'a.b.c.d.e'
        if 'nodot' in parts:
            t['dname'] = 'plainname'
        if 'deep' in parts:
            t['dfile'] = os.path.join(os.getcwd(), 'sub', 'dir.with.dot', 'pkg', 'README.txt')
        if 'dots' in parts:
            t['dfile'] = '/vtw/some.egg/pkg/a.b.c.txt'
        spec = {'layers': [{'n': 'A', 'b': [], 'k': 'c', 'h': ['setUp', 'tearDown']}],
                'tests': [{'n': 'q0', 'l': None, 's': 'pass'}, t,
                          {'n': 'q2', 'l': 'A', 's': 'pass'},
                          {'n': 'q3', 'l': None, 'dt': 'string', 's': 'pass'}]}
        why = 'doctest %s repeat %d' % (a, rep)
        res, files = run_xml(spec, ['--repeat', str(rep)] if rep > 1 else [])
    elif kind == 'modes':
        rep = 1
        shape, k = a
        nslots = len(ow.SHAPES[shape][1])
        spec = ow.build(shape, ['pass'] * (nslots - 1) + [k])
        # a second test class in the first slot's layer, so that one child
        # contributes two report files
        why = 'shape %s last test %s mode %s' % (shape, k, b)
        res, files = run_xml(spec, [] if b == 'seq' else [b])
        if not res.children:
            vs0 = [('harness_no_children', why)]
        else:
            vs0 = []
    elif kind == 'buffered':
        rep = 1
        text = 'out:' + ''.join(chr(c) for c in a if not 0xd800 <= c <= 0xdfff) + ':end\n'
        spec = {'layers': [{'n': 'A', 'b': [], 'k': 'c', 'h': ['setUp', 'tearDown']}],
                'tests': [{'n': 'q0', 'l': 'A', 's': 'fail', 'w': [['o', text, False], ['e', text, False]]},
                          {'n': 'q1', 'l': 'A', 's': 'error', 'ws': [['o', text, False]]},
                          {'n': 'q2', 'l': None, 's': 'pass', 'w': [['o', text, False]]}]}
        why = '--buffer, tests writing code points %s before failing, %s' % (['U+%04X' % c for c in a[:6]], b)
        res, files = run_xml(spec, ['--buffer'] + (['-j2'] if b == 'j2' else []))
    elif kind == 'relxml':
        return run_relxml(a)
    elif kind == 'two_classes_subtests':
        rep = 1
        spec = {'layers': [], 'tests': [{'n': 'q0', 'l': None, 's': 'sub:2,1,0'},
                                        {'n': 'q1', 'l': None, 's': 'sub:1,1,1'},
                                        {'n': 'q2', 'l': None, 's': 'pass'}],
                'bad_modules': ['vtw.broken', 'vtw.broken2']}
        why = 'failing subtests in two classes, two import errors'
        res, files = run_xml(spec)
        # every import error has its own report entry
        startup = [f for f in files if 'broken' in f]
        if len(startup) != 2:
            vs0 = [('import_errors_not_reported_separately', '%s: report files %s' % (why, sorted(files)))]
        else:
            vs0 = []
    elif kind == 'long':
        rep = 1
        T = ('x' if a != 'cls' else 'X') * b
        if a == 'cls':
            tests = [{'n': 'q0', 'cls': 'N' + T, 'l': None, 's': 'fail'}, {'n': 'q1', 'cls': 'P' + T, 'l': None, 's': 'pass'},
                     {'n': 'q2', 'cls': T + 'N', 'l': None, 's': 'error'}, {'n': 'q3', 'cls': T + 'P', 'l': None, 's': 'pass'}]
        elif a == 'dname':
            tests = [{'n': 'q0', 'dt': 'string', 'dname': 'pk.n' + T + '.f', 'l': None, 's': 'fail'},
                     {'n': 'q1', 'dt': 'string', 'dname': 'pk.p' + T + '.f', 'l': None, 's': 'pass'},
                     {'n': 'q2', 'dt': 'string', 'dname': 'pk.' + T + 'n.f', 'l': None, 's': 'fail'},
                     {'n': 'q3', 'dt': 'string', 'dname': 'pk.' + T + 'p.f', 'l': None, 's': 'pass'}]
        else:
            tests = [{'n': 'q0', 'dt': 'file', 'dfile': '/vtw/n' + T + '/a0.txt', 'l': None, 's': 'fail'},
                     {'n': 'q1', 'dt': 'file', 'dfile': '/vtw/p' + T + '/a1.txt', 'l': None, 's': 'pass'},
                     {'n': 'q2', 'dt': 'file', 'dfile': '/vtw/' + T + 'n/a2.txt', 'l': None, 's': 'fail'},
                     {'n': 'q3', 'dt': 'file', 'dfile': '/vtw/' + T + 'p/a3.txt', 'l': None, 's': 'pass'}]
        spec = {'layers': [], 'tests': tests}
        why = '%d-character %s (four suites, same head / same tail)' % (b, {'cls': 'class names', 'dname': 'doctest names', 'dfile': 'doctest file paths'}[a])
        res, files = run_xml(spec)
    elif kind == 'kind':
        falsyt = b if isinstance(b, str) else None
        rep = 1 if falsyt else b
        spec = {'layers': [{'n': 'A', 'b': [], 'k': 'c', 'h': ['setUp', 'tearDown']}],
                'tests': [{'n': 'q0', 'l': None, 's': 'pass'}, {'n': 'q1', 'l': 'A', 's': a},
                          {'n': 'q2', 'l': 'A', 's': 'pass'}]}
        if falsyt:
            for t in spec['tests']:
                t['falsyt'] = falsyt
        why = 'outcome %s repeat %d%s' % (a, rep, ' (falsy test case objects: %s)' % falsyt if falsyt else '')
        res, files = run_xml(spec, ['--repeat', str(rep)] if rep > 1 else [])
    else:
        rep = 1
        spec = {'layers': [], 'tests': [{'n': 'q0', 'l': None, 's': 'pass'}], 'bad_modules': ['vtw.broken']}
        why = 'import error'
        res, files = run_xml(spec)
    sig = {'part': kind, 'what': (str(a)[:40] if kind in ('kind', 'dkind', 'modes', 'buffered', 'long') else (b if kind == 'str' else ''))}
    vs = check_files(res, files, why)
    if kind in ('modes', 'two_classes_subtests'):
        vs += vs0
    if not files and not vs:
        vs.append(('no_report', why))
    if not res.escaped:
        vs += structure_viol(spec, res, files, rep, why)
    for clause, detail in vs:
        viol.append({'clause': clause, 'sig': dict(sig, strno=(a if kind == 'str' else None)), 'detail': detail})
    return {'evals': 1, 'nontrivial': 1, 'violations': viol, 'outcome': kind,
            'counters': {'runner_executions': 1}}
