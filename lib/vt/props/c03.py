"""C03 — exactly the selected tests run, once each, every mode agrees."""
import collections
import os
import itertools
import re

from vt import monitors
from vt import refmodel
from vt import runrt
from vt import worlds

ID = 'C03'
LEVEL = 'exploration'
RULE = ('worlds = every combination of 3 declaration chains out of a menu of '
        '8 (nested suites to depth 3, layer/level on suites, classes and '
        'instances, string layer names; layers L1, L2(L1), L3) x {all layers '
        'can be torn down, L1 cannot (later layers are resumed in children)} x '
        '16 filter vectors (-t, --layer, level switches, -u/-f alone and with --layer) x 5 '
        'repeat/shuffle vectors x {sequential, -j2, -j3}, plus --list-tests '
        'for every filter x shuffle vector; plus every ordered pair of 15 layer names that are not plain identifiers (dots, regex metacharacters, blanks) x {sequential, resumed, -j2, -j3} '
        '- '
        'for every filter x shuffle vector; oracle: executed multiset == '
        'reference selection x repeat, one process per test, own layer stack '
        'set up (C01 monitor), listing == selection per layer in execution '
        'order and runs no code, per-layer order equal in every mode. '
        'non-trivial = >=1 filter or mode option')
ASSUMPTIONS = [
    'the declaration worlds are a single in-memory test module; two modules on disk under repeated / overlapping search roots are discovered for real (6 root vectors x 10 filter lists)',
    'children are in-process real Runners',
]
BOUND = {
    'quick': '56 worlds (3 distinct chains) + 8 (one chain three times) x 2 x 12 x 5 x 3 runs + listings',
    'thorough': 'all 512 ordered triples of chains, same option space',
}
CHUNK = 16

# (outer suites outermost first [(layer, level)], leaf (layer, level, where, as_string))
MENU = [
    ([], (None, None, 'cls', False)),
    ([], ('L1', None, 'cls', False)),
    ([('L2', None)], (None, None, 'cls', False)),
    ([('L1', None), ('L2', None)], (None, None, 'cls', False)),
    ([], ('L3', 2, 'cls', False)),
    ([(None, 3)], ('L1', 1, 'cls', False)),
    ([('L3', None)], (None, 2, 'inst', False)),
    ([(None, None), ('L2', 3), (None, None)], ('L1', 3, 'cls', True)),
]
FILTERS = [[], ['-t', 'q0'], ['-t', 'q1|q2 '], ['-t', '!q0'],
           ['--layer', 'L1$'], ['--layer', '!L2'], ['--at-level', '2'],
           ['--all'], ['--only-level', '2'], ['-u'], ['-f'], ['-u', '-f'],
           # unit switches combined with --layer patterns that do / do not
           # accept the unit layer's name
           ['-f', '--layer', '!L2'], ['-f', '--layer', '.'], ['-u', '--layer', 'L1'],
           ['-f', '--layer', 'layer'],
           # numeric boundaries of the level switches
           ['--only-level', '0'], ['--only-level', '1'], ['--at-level', '0'], ['--at-level=-3'],
           ['--only-level', '3', '--all']]
RUNOPTS = [[], ['--repeat', '2'], ['--repeat', '3'],
           ['--shuffle', '--shuffle-seed', '7'],
           ['--shuffle', '--shuffle-seed', '7', '--repeat', '2']]
MODES = {'seq': [], 'j2': ['-j2'], 'j3': ['-j3']}


def cases(tier, seed):
    idx = range(len(MENU))
    if tier == 'quick':
        ws = [list(c) for c in itertools.combinations(idx, 3)] + [[i, i, i] for i in idx]
    else:
        ws = [list(c) for c in itertools.product(idx, repeat=3)]
    for w in worlds.rot(ws, seed):
        for nie in (False, True):
            for fi in range(len(FILTERS)):
                yield [w, nie, fi]
    # the same with one erroring / failing test early in the run: an outcome
    # must not change which other tests run (no -x here)
    for w in worlds.rot(ws, seed)[:16]:
        for nie in (False, True):
            for bad in ('error', 'fail'):
                yield [w, nie, 0, bad]
    # layer OBJECTS of other shapes: instance layers that are falsy (an empty
    # container / __bool__ False) or compared by value
    for w in worlds.rot(ws, seed)[:12]:
        for nie in (False, True):
            for fi in (0, 1, 2):
                for ish in ('len0', 'bool0', 'eq'):
                    yield [w, nie, fi, None, ish]
    for where in ('unit', 'layer_test', 'nowhere', 'import'):
        for mode in ('resumed', 'j2'):
            yield ['cwd', where, mode]
    for rk in DISK_ROOTS:
        for fi in range(len(DISK_FILTERS)):
            yield ['disk', rk, fi]
    for a, b in itertools.permutations(HOSTILE, 2):
        for mode in NAME_MODES:
            yield ['names', [a, b], mode]
    # --shuffle without a seed: the listing for the seed the run reports is
    # what the run executed - sequentially, under -j2, with resumed layers
    for wi in (3, 7, 12, 20, 33):
        yield ['seedless', wi, None]


# layer names that are not plain identifiers: the name travels to the child
# through --resume-layer and is compared / matched there
HOSTILE = ['a.b', 'a_b', 'ab', 'a', 'x[y]', 'p+q', 'L(1)', 'a|b', 'a*', 'a?b',
           'a b', 'a$', 'a\\b', 'a.', 'a{1}',
           # the same short name in two modules whose dotted names are in a
           # suffix / prefix relation
           'vtw.tests:DB', 'xvtw.tests:DB', 'vtw.tests:DB2', 'vtw.testsx:DB']
NAME_MODES = {'seq': (False, []), 'resumed': (True, []), 'j2': (False, ['-j2']),
              'resumed_v': (True, ['-vv']), 'j3_layer': (False, ['-j3', '--layer', '.'])}


def run_names_case(names, mode):
    nie, argv = NAME_MODES[mode]
    layers = [{'n': 'AAA', 'b': [], 'k': 'i', 'h': list(worlds.HOOKS_SD)}]
    if nie:
        layers[0]['f'] = {'tearDown': 'NIE'}
    tests = [{'n': 'z0', 'l': 'AAA', 's': 'pass'}]
    seen_short = set()
    for i, nm in enumerate(names):
        L = {'n': nm, 'b': [], 'k': 'i', 'h': list(worlds.HOOKS_SD)}
        if ':' in nm:
            mod, short = nm.split(':')
            if short in seen_short:
                short = short + '_'        # (spec layer names are keys)
            L = {'n': short, 'm': mod, 'b': [], 'k': 'i', 'h': list(worlds.HOOKS_SD)}
            L['rn'] = nm.split(':')[1]
        seen_short.add(L['n'])
        layers.append(L)
        tests.append({'n': 'q%d' % i, 'l': L['n'], 's': 'pass'})
        tests.append({'n': 'q%db' % i, 'l': L['n'], 's': 'pass'})
    spec = {'layers': layers, 'tests': tests}
    r = runrt.run_world(spec, argv)
    viol = []
    sig = {'part': 'names', 'mode': mode}
    d = 'layer names %r, argv %s: ' % (names, argv)

    def V(clause, detail):
        viol.append({'clause': clause, 'sig': sig, 'detail': d + str(detail)})
    if r.escaped:
        V('run_aborted', r.escaped_tb)
        return viol
    ex = collections.Counter()
    where = collections.defaultdict(set)
    for ev in r.trace:
        if ev[1] == 't' and ev[3] == 'body':
            ex[ev[2]] += 1
            where[ev[0]].add(ev[2][:2])
    wantc = collections.Counter({t['n']: 1 for t in tests})
    if ex != wantc:
        V('executed_multiset', 'executed %s, expected every test once; errors %s\n%s' % (dict(ex), r.errors, r.text[-600:]))
    for vp, ls in where.items():
        if vp != 0 and len(ls) > 1:
            V('child_ran_two_layers', 'child %s ran tests of layers %s' % (vp, sorted(ls)))
    if r.failed:
        V('verdict_failed_for_passing_world', 'failures %s errors %s\n%s' % (r.failures, r.errors, r.text[-600:]))
    if mode != 'seq' and not r.children:
        V('harness_no_children', '')
    return viol


# ---- real discovery: two modules on disk, overlapping / repeated search roots
DISK_A = {'mod': 'vtw.tests',
          'layers': [{'n': 'LA', 'b': [], 'k': 'c', 'h': list(worlds.HOOKS_SD)}],
          'tests': [{'n': 'a0', 'l': None, 's': 'pass'}, {'n': 'a1', 'l': None, 's': 'pass'},
                    {'n': 'a2', 'l': 'LA', 's': 'pass'}]}
DISK_B = {'mod': 'vtw.sub.tests',
          'layers': [{'n': 'LB', 'b': [], 'k': 'c', 'h': list(worlds.HOOKS_SD)}],
          'tests': [{'n': 'b0', 'l': None, 's': 'pass'}, {'n': 'b1', 'l': 'LB', 's': 'pass'},
                    {'n': 'B2', 'l': 'LB', 's': 'pass'}]}
# a module WITHOUT test_suite() (its TestCase classes are loaded by the default
# loader) that happens to have globals called `layer` and `level`
DISK_C_SRC = '''import unittest
from vt import worldrt
worldrt._open_trace()
class _SomeLayer:
    __name__ = 'helper'
layer = _SomeLayer        # an ordinary global, NOT a declaration for the tests
level = 3
class T_c0(unittest.TestCase):
    def test_c0(self):
        worldrt.emit('t', 'c0', 'body')
class T_c1(unittest.TestCase):
    def test_c1(self):
        worldrt.emit('t', 'c1', 'body')
'''
DISK_ROOTS = {
    'one': lambda r: ['--path', r],
    'twice': lambda r: ['--path', r, '--path', r],
    'path+test-path': lambda r: ['--path', r, '--test-path', r],
    'pkg+subpkg': lambda r: ['--path', r, '-s', 'vtw', '-s', 'vtw.sub'],
    'subpkg+pkg': lambda r: ['--path', r, '-s', 'vtw.sub', '-s', 'vtw'],
    'pkg twice': lambda r: ['--path', r, '-s', 'vtw', '-s', 'vtw'],
    # two features that are each fine alone
    'pkg+coverage': lambda r: ['--path', r, '-s', 'vtw', '--coverage', os.path.join(r, 'covdir')],
    'coverage': lambda r: ['--path', r, '--coverage', os.path.join(r, 'covdir')],
    # the package given with its directory: module names get the prefix vtw.
    'package-path': lambda r: ['--package-path', os.path.join(r, 'vtw'), 'vtw'],
}
DISK_FILTERS = [[], ['-t', 'a0', '-t', 'b1'], ['-t', '(?i)A1 ', '-t', 'b0'],
                ['-t', r'_(a)0 .*\1', '-t', r'_(b)1 .*\1'], ['-t', '!a', '-t', '!(?i)b2 '],
                ['-m', 'sub', '-t', '0'], ['--layer', 'LA|LB', '-t', '(?i)b'],
                # negated module patterns that match a *package* name only
                ['-m', '!sub$'], ['-m', '!^vtw$', '-m', r'!\.sub$'], ['-m', 'vtw', '-m', r'!vtw(?!\.sub)'],
                # module patterns that look at the package prefix
                ['-m', r'^vtw\.'], ['-m', '!vtw'], ['-m', r'^(amod|sub)'],
                # --test patterns that look at the tail of the id of a plain
                # unittest.TestCase method: 'test_c0 (vtw.cmod.tests.T_c0.test_c0)'
                # is the id - not an older spelling of it
                ['-t', r'T_c0\)$'], ['-t', r'!\.T_c1\)$'], ['-t', 'c', '-t', r'!tests\.T_c0\)'],
                ['-t', r'c1 \(vtw\.cmod\.tests\.T_c1\.test_c1\)$']]
DISK_IDS = {'c0': ('test_c0 (vtw.cmod.tests.T_c0.test_c0)', 'vtw.cmod.tests', 'zope.testrunner.layer.UnitTests'),
            'c1': ('test_c1 (vtw.cmod.tests.T_c1.test_c1)', 'vtw.cmod.tests', 'zope.testrunner.layer.UnitTests')}
for _sp in (DISK_A, DISK_B):
    for _t in _sp['tests']:
        DISK_IDS[_t['n']] = ('test_%s (%s.T_%s.test_%s)' % (_t['n'], _sp['mod'], _t['n'], _t['n']),
                             _sp['mod'],
                             'zope.testrunner.layer.UnitTests' if _t['l'] is None else _sp['mod'] + '.' + _t['l'])


def disk_reference(flt):
    from vt.props import c08
    pats = {'-t': [], '-m': [], '--layer': []}
    i = 0
    while i < len(flt):
        pats[flt[i]].append(flt[i + 1])
        i += 2
    out = []
    for tid, (s, mod, lay) in DISK_IDS.items():
        if pats['-t'] and not c08.spec_accept(pats['-t'], s):
            continue
        if pats['-m'] and not c08.spec_accept(pats['-m'], mod):
            continue
        if pats['--layer'] and not c08.spec_accept(pats['--layer'], lay):
            continue
        out.append(tid)
    return sorted(out)


def run_disk_case(rk, fi):
    import sys
    from vt import env
    from vt import worldrt
    flt = DISK_FILTERS[fi]
    root = env.scratch('vtc03')
    viol = []
    sig = {'part': 'disk', 'roots': rk}
    try:
        worldrt.write_disk(DISK_A, root)
        worldrt.write_disk(DISK_B, root)
        os.makedirs(os.path.join(root, 'vtw', 'cmod'))
        with open(os.path.join(root, 'vtw', 'cmod', '__init__.py'), 'w'):
            pass
        with open(os.path.join(root, 'vtw', 'cmod', 'tests.py'), 'w') as f:
            f.write(DISK_C_SRC)
        argv = DISK_ROOTS[rk](root) + flt
        want = disk_reference(flt)
        added = False
        if root not in sys.path:
            sys.path.insert(0, root)
            added = True
        try:
            lst = runrt.run_plain(argv + ['--list-tests'], roots=[root])
            run = runrt.run_plain(argv, roots=[root])
        finally:
            if added and root in sys.path:
                sys.path.remove(root)
    finally:
        env.rmtree(root)
    d = 'search roots %s, filters %s: ' % (rk, flt)
    for r, what in ((lst, 'list'), (run, 'run')):
        if r.escaped:
            viol.append({'clause': 'run_aborted', 'sig': dict(sig, mode=what), 'detail': d + r.escaped_tb})
    if lst.escaped or run.escaped:
        return viol
    listed = sorted(m.group(1) for ln in lst.text.split('\n') for m in [TEST_RE.match(ln)] if m)
    ran = sorted(ev[2] for ev in run.trace if ev[1] == 't' and ev[3] == 'body')
    if listed != want:
        viol.append({'clause': 'listing_differs_from_selection', 'sig': dict(sig, mode='list'),
                     'detail': d + 'listed %s, reference %s' % (listed, want)})
    if ran != want:
        viol.append({'clause': 'executed_multiset', 'sig': dict(sig, mode='seq'),
                     'detail': d + 'executed %s, reference %s' % (ran, want)})
    if any(ev[1] == 't' for ev in lst.trace):
        viol.append({'clause': 'list_mode_ran_code', 'sig': dict(sig, mode='list'), 'detail': d})
    return viol


# ---- real processes, a RELATIVE search path and tests that change the cwd
def run_cwd_case(where, mode):
    """Layer A cannot be torn down (resumed mode) and one of its tests / its
    setUp does os.chdir('/') and never goes back; the layers after it run in
    child processes started later."""
    A = {'n': 'A', 'b': [], 'k': 'c', 'h': list(worlds.HOOKS_SD)}
    if mode == 'resumed':
        A['f'] = {'tearDown': 'NIE'}
    layers = [A, {'n': 'B', 'b': [], 'k': 'c', 'h': list(worlds.HOOKS_SD)},
              {'n': 'C', 'b': [], 'k': 'c', 'h': list(worlds.HOOKS_SD)}]
    tests = [{'n': 'u0', 'l': None, 's': 'chdir' if where == 'unit' else 'pass'},
             {'n': 'a0', 'l': 'A', 's': 'chdir' if where == 'layer_test' else 'pass'},
             {'n': 'b0', 'l': 'B', 's': 'pass'}, {'n': 'b1', 'l': 'B', 's': 'pass'},
             {'n': 'c0', 'l': 'C', 's': 'pass'}]
    spec = {'layers': layers, 'tests': tests}
    argv = ['-j2'] if mode == 'j2' else []
    extra = None
    if where == 'import':
        # a test module that changes the working directory when it is imported
        # (i.e. during discovery, in every process)
        extra = {'vtw/zsub/__init__.py': '',
                 'vtw/zsub/tests.py': 'import os, tempfile, unittest\n'
                                      'os.chdir(tempfile.mkdtemp(prefix="vt-chdir-", dir=os.environ.get("VT_SCRATCH_RUN") or "/dev/shm"))\n'
                                      'class T(unittest.TestCase):\n'
                                      '    def test_z(self):\n'
                                      '        pass\n'}
    res = runrt.run_cli(spec, argv, timeout=120, relpath=True, extra_files=extra)
    ran = collections.Counter(ev[2] for ev in res.trace if ev[1] == 't' and ev[3] == 'body')
    want = collections.Counter({t['n']: 1 for t in tests})
    viol = []
    sig = {'part': 'cwd', 'mode': mode}
    d = 'relative --path, os.chdir in %s, %s: ' % (where, mode)
    if ran != want:
        viol.append({'clause': 'executed_multiset', 'sig': sig,
                     'detail': d + 'executed %s, expected every test once\n%s' % (dict(ran), res.text[-800:])})
    if res.rc != 0:
        viol.append({'clause': 'verdict_failed_for_passing_world', 'sig': sig,
                     'detail': d + 'exit status %r\n%s' % (res.rc, res.text[-800:])})
    m = runrt.TOTAL_RE.search(res.text)
    if not m or int(m.group(1)) != len(tests) + (1 if where == 'import' else 0):
        viol.append({'clause': 'totals', 'sig': sig, 'detail': d + 'Total line %r' % (m and m.group(0),)})
    return viol


def build(w, nie):
    tests = []
    tree = []
    for i, mi in enumerate(w):
        outer, (l, v, where, as_str) = MENU[mi]
        for j in range(2):           # two tests per chain so order matters
            tid = 'q%d%s' % (i, 'ab'[j]) if j else 'q%d' % i
            t = {'n': tid, 's': 'pass'}
            if where == 'cls':
                if l is not None:
                    t['l'] = l
                    if as_str:
                        t['lstr'] = True
                if v is not None:
                    t['lv'] = v
            else:
                t['li'] = {'l': l, 'lv': v}
            tests.append(t)
            node = {'t': tid}
            for ol, ov in reversed(outer):
                n2 = {'c': [node]}
                if ol is not None:
                    n2['l'] = ol
                if ov is not None:
                    n2['lv'] = ov
                node = n2
            tree.append(node)
    L1 = {'n': 'L1', 'b': [], 'k': 'c', 'h': list(worlds.HOOKS_SD)}
    if nie:
        L1['f'] = {'tearDown': 'NIE'}
    layers = [L1, {'n': 'L2', 'b': ['L1'], 'k': 'c', 'h': list(worlds.HOOKS_SD)},
              {'n': 'L3', 'b': [], 'k': 'c', 'h': list(worlds.HOOKS_SD)}]
    return {'layers': layers, 'tests': tests, 'tree': tree}


def setup_worker():
    runrt._mods()
    from vt.props import c11
    c11.setup_worker()


LIST_RE = re.compile(r'^Listing (\S+) tests:$')
TEST_RE = re.compile(r'^  test_(\w+) \(')


def parse_listing(text):
    d = collections.OrderedDict()
    cur = None
    for ln in text.splitlines():
        m = LIST_RE.match(ln)
        if m:
            cur = m.group(1)
            d.setdefault(cur, [])
            continue
        m = TEST_RE.match(ln)
        if m and cur is not None:
            d[cur].append(m.group(1))
    return d


def run_case(case):
    if case[0] == 'cwd':
        viol = run_cwd_case(case[1], case[2])
        return {'evals': 1, 'nontrivial': 1, 'violations': viol, 'outcome': ('cwd', case[2]), 'nogate': True}
    if case[0] == 'disk':
        viol = run_disk_case(case[1], case[2])
        return {'evals': 2, 'nontrivial': 2, 'violations': viol, 'outcome': ('disk', case[1])}
    if case[0] == 'seedless':
        from vt.props import c11
        evals, vs = c11.run_seedless(case[1])
        viol = [{'clause': c, 'sig': dict(sg, part='seedless'), 'detail': d} for c, sg, d in vs]
        return {'evals': evals, 'nontrivial': evals, 'violations': viol, 'outcome': 'seedless'}
    if case[0] == 'names':
        viol = run_names_case(case[1], case[2])
        return {'evals': 1, 'nontrivial': 1, 'violations': viol, 'outcome': ('names', case[2])}
    w, nie, fi = case[:3]
    spec = build(w, nie)
    if len(case) > 4:
        for L in spec['layers']:
            L['k'] = 'i'
            L['ish'] = case[4]
    if len(case) > 3 and case[3]:
        # the first test that runs (L1 is first in layer order when it has
        # tests, the unit layer otherwise) errors / fails
        d0 = refmodel.declared(spec)
        order = sorted(d0, key=lambda t: (d0[t][0] != refmodel.UNIT, d0[t][0], t))
        for t in spec['tests']:
            if t['n'] == order[0]:
                t['s'] = case[3]
    flt = FILTERS[fi]
    sv = monitors.SpecView(spec)
    decl = refmodel.declared(spec)
    sv.test_layer = {t: sv.short(L) for t, (L, _) in decl.items()}

    def tid_str(tid):
        return 'test_%s (vtw.tests.T_%s.test_%s)' % (tid, tid, tid)
    want = refmodel.select(decl, flt, tid_str)
    viol = []
    evals = 0

    def V(clause, detail, **sig):
        viol.append({'clause': clause, 'sig': dict(sig, flt=' '.join(flt)),
                     'detail': str(detail) + '\nworld=%s nie=%s' % (w, nie)})
    listing = {}
    for shuf in ([], ['--shuffle', '--shuffle-seed', '7']):
        r = runrt.run_world(spec, ['--list-tests'] + flt + shuf, probe=False)
        evals += 1
        if r.escaped:
            V('run_aborted', r.escaped_tb, mode='list')
            continue
        lst = parse_listing(r.text)
        listing[bool(shuf)] = lst
        got = {t: L for L, ts in lst.items() for t in ts}
        n = sum(len(ts) for ts in lst.values())
        if got != want or n != len(got):
            V('listing_differs_from_selection', 'listed %s, reference selection %s' % (dict(lst), want), mode='list')
        if r.trace:
            V('list_mode_ran_code', r.trace[:4], mode='list')
    for ro in RUNOPTS:
        rep = refmodel.parse_filters(ro)['repeat']
        shuf = '--shuffle' in ro
        ref_order = None
        for mode, margs in MODES.items():
            argv = flt + ro + margs
            r = runrt.run_world(spec, argv)
            evals += 1
            sig = {'mode': mode, 'nie': nie, 'rep': rep, 'shuf': shuf}
            if r.escaped:
                V('run_aborted', r.escaped_tb, **sig)
                continue
            ex = collections.Counter()
            where = collections.defaultdict(set)
            order = collections.OrderedDict()
            for ev in r.trace:
                if ev[1] == 't' and ev[3] == 'body':
                    ex[ev[2]] += 1
                    where[ev[2]].add(ev[0])
                    order.setdefault(decl[ev[2]][0], []).append(ev[2])
            wantc = collections.Counter({t: rep for t in want})
            if ex != wantc:
                V('executed_multiset', 'argv=%s executed %s, reference %s' % (argv, dict(ex), dict(wantc)), **sig)
            for t, vp in where.items():
                if len(vp) != 1:
                    V('test_in_two_processes', '%s in %s' % (t, sorted(vp)), **sig)
            for clause, detail in monitors.check_layer_stack(sv, r):
                V('stack:' + clause, 'argv=%s %s' % (argv, detail), **sig)
            first_iter = collections.OrderedDict(
                (L, ts[:len(ts) // rep] if rep else ts) for L, ts in order.items())
            for L, ts in order.items():
                k = len(ts) // rep
                if any(ts[i * k:(i + 1) * k] != ts[:k] for i in range(rep)):
                    V('iterations_differ', 'layer %s executed %s' % (L, ts), **sig)
            lst = listing.get(shuf)
            if lst is not None and mode == 'seq':
                if list(first_iter.items()) != [(L, ts) for L, ts in lst.items() if ts]:
                    V('listing_order_differs_from_run', 'argv=%s listed %s executed %s' % (argv, dict(lst), dict(first_iter)), **sig)
            if ref_order is None:
                ref_order = first_iter
            elif dict(first_iter) != dict(ref_order):
                V('mode_order_differs', 'argv=%s executed %s, sequential %s' % (argv, dict(first_iter), dict(ref_order)), **sig)
    return {'evals': evals, 'nontrivial': evals - (1 if not flt else 0),
            'violations': viol, 'outcome': (len(want), nie)}
