"""C11 — shuffle is a seed-determined permutation inside each layer."""
import glob
import hashlib
import itertools
import math
import os
import random
import re
import shutil
import subprocess

from vt import env
from vt import runrt
from vt import worlds

ID = 'C11'
LEVEL = 'exploration'
RULE = ('worlds = 1..3 layers (+ optional unit layer) with sizes from {1,2,5} '
        '(39 size vectors); for every seed of the bound the per-layer order is '
        'taken from --list-tests, from the trace of a sequential run, of a '
        '--layer-filtered run of every single layer, of a -j2 run (children) '
        'and of a run whose later layers are resumed in children; all must be '
        'permutations of the layer\'s own tests, equal to each other and to an '
        'independently written Fisher-Yates over random.Random(seed).random(); '
        'seedless runs (clock owned by the harness: parent and every child see '
        'different times) must report one seed that reproduces every process; '
        'the real shuffle.py is also run under CPython 3.9-3.13 and digests '
        'are compared. non-trivial = a layer with >=2 tests')
ASSUMPTIONS = [
    'the clock of Shuffle is replaced by a harness clock that advances 1.37s per call and has a fractional part, so a parent and its children never share a clock-derived seed by accident',
    'other interpreters run shuffle.py with a stub of zope.testrunner.feature (they have no zope packages)',
]
BOUND = {
    'quick': 'seeds 0..31 in all 5 modes, 32..255 + {-1, 2^31, 2^63+1, 443000000000} in list mode; seedless in 3 modes x 39 worlds; 5 interpreters x seeds 0..255 x sizes 0..7',
    'thorough': 'seeds 0..255 in all modes, 256..4095 in list mode; 5 interpreters x seeds 0..4095',
}
CHUNK = 8
SIZES = [1, 2, 5]
BIG = [-1, 2 ** 31, 2 ** 63 + 1, 443000000000]


def ref_orders(seed, layers):
    """Independent reference: {layer: [tests]} -> shuffled."""
    rng = random.Random(seed)
    rng.seed(seed, version=1)
    out = {}
    for name in sorted(layers):
        lst = list(layers[name])
        i = len(lst) - 1
        while i >= 1:
            j = int(math.floor(rng.random() * (i + 1)))
            lst[i], lst[j] = lst[j], lst[i]
            i -= 1
        out[name] = lst
    return out


def world_list():
    out = []
    for k in (1, 2, 3):
        for sizes in itertools.product(SIZES, repeat=k):
            for unit in (0, 2):
                if k == 3 and unit:
                    continue
                out.append((list(sizes), unit))
    return out


def cases(tier, seed):
    ws = world_list()
    full = range(0, 32) if tier == 'quick' else range(0, 256)
    listonly = list(range(32, 256)) + BIG if tier == 'quick' else list(range(256, 4096)) + BIG
    for wi in worlds.rot(range(len(ws)), seed):
        for s0 in range(full.start, full.stop, 8):
            yield ['modes', wi, list(range(s0, s0 + 8))]
        for i in range(0, len(listonly), 64):
            yield ['list', wi, listonly[i:i + 64]]
        yield ['seedless', wi, None]
        if wi % 4 == 1:
            yield ['spell', wi, [5, 77]]
        if wi % 5 == 0:
            # a test module that touches the global random generator at import
            yield ['diskrandom', wi, [3, 11]]
        # negative and very large seeds in every mode (they reach the children
        # through the re-serialised command line)
        yield ['modes', wi, [-1, -7, 2 ** 31, 2 ** 63 + 1]]
    for wi in range(len(ws)):
        sizes, unit = ws[wi]
        if len(sizes) >= 2 and max(sizes) >= 3:
            yield ['ctc', wi, [1, 7, 20260930]]
    yield ['interp', 256 if tier == 'quick' else 4096, None]


CTC = [False]


def build(wi, nie=False, mod=None):
    sizes, unit = world_list()[wi]
    names = ['B', 'C', 'D'][:len(sizes)]
    layers = []
    tests = []
    if nie:
        layers.append({'n': 'A', 'b': [], 'k': 'c', 'h': list(worlds.HOOKS_SD),
                       'f': {'tearDown': 'NIE'}})
        tests.append({'n': 'a0', 'l': 'A', 's': 'pass'})
        tests.append({'n': 'a1', 'l': 'A', 's': 'pass'})
    for nm, sz in zip(names, sizes):
        layers.append({'n': nm, 'b': [], 'k': 'c', 'h': list(worlds.HOOKS_SD)})
        for i in range(sz):
            # the tests of a layer come from three modules, interleaved
            tests.append({'n': '%s%d' % (nm.lower(), i), 'l': nm, 's': 'pass',
                          'tm': (mod or 'vtw.tests') + ('', '_b', '_c')[i % 3]})
    for i in range(unit):
        tests.append({'n': 'u%d' % i, 'l': None, 's': 'pass'})
    if CTC[0]:
        # test objects that stand for several / for no test cases
        # (countTestCases() != 1): the shuffle permutes test OBJECTS
        for nm in names[:2]:
            mine = [t for t in tests if t['l'] == nm]
            if mine:
                mine[0]['ctc'] = 3
            if len(mine) > 2:
                mine[2]['ctc'] = 0
        for t in tests:
            if t['l'] is None:
                t['ctc'] = 2
                break
    sp = {'layers': layers, 'tests': tests}
    if mod:
        sp['mod'] = mod
    return sp


def lname(t, mod='vtw.tests'):
    return 'zope.testrunner.layer.UnitTests' if t['l'] is None else mod + '.' + t['l']


def unshuffled(spec):
    d = {}
    for t in spec['tests']:
        d.setdefault(lname(t, spec.get('mod') or 'vtw.tests'), []).append(t['n'])
    return d


LIST_RE = re.compile(r'^Listing (\S+) tests:$')
TEST_RE = re.compile(r'^  test_(\w+) \(')
SEED_RE = re.compile(r'Tests were shuffled using seed number (-?\d+)\.')


def parse_listing(text):
    d = {}
    cur = None
    for ln in text.splitlines():
        m = LIST_RE.match(ln)
        if m:
            cur = m.group(1)
            d[cur] = []
            continue
        m = TEST_RE.match(ln)
        if m and cur is not None:
            d[cur].append(m.group(1))
    return d


def executed_orders(res, spec):
    by = {t['n']: lname(t, spec.get('mod') or 'vtw.tests') for t in spec['tests']}
    d = {}
    procs = {}
    for ev in res.trace:
        if ev[1] == 't' and ev[3] == 'body':
            d.setdefault(by[ev[2]], []).append(ev[2])
            procs.setdefault(by[ev[2]], set()).add(ev[0])
    return d, procs


class _Clock:
    def __init__(self):
        self.t = 1700000000.123

    def time(self):
        # a fractional clock: time()*256 is not integral, like a real one
        self.t += 1.3701
        return self.t


def setup_worker():
    runrt._mods()
    global SH
    import zope.testrunner.shuffle as SH


def seed_args(s):
    # '--shuffle-seed=-1' keeps argparse from reading -1 as an option
    return ['--shuffle', '--shuffle-seed=%d' % s]


def check_perm(got, base, where, viol, sig):
    for L, lst in base.items():
        g = got.get(L)
        if g is None:
            viol.append(('layer_missing', sig, '%s: layer %s missing in %s' % (where, L, got)))
        elif sorted(g) != sorted(lst):
            viol.append(('not_a_permutation_of_its_layer', sig, '%s: layer %s has %s, its tests are %s' % (where, L, g, lst)))
    for L in got:
        if L not in base:
            viol.append(('unknown_layer', sig, '%s: %s' % (where, L)))


def run_modes(wi, seeds, listonly):
    spec = build(wi)
    spec_nie = build(wi, nie=True)
    base = unshuffled(spec)
    base_nie = unshuffled(spec_nie)
    viol = []
    evals = 0
    for s in seeds:
        ref = ref_orders(s, base)
        sig = {'mode': 'list'}
        r = runrt.run_world(spec, seed_args(s) + ['--list-tests'], probe=False)
        evals += 1
        if r.escaped:
            viol.append(('run_aborted', sig, 'seed %s: %s' % (s, r.escaped_tb)))
            continue
        lst = parse_listing(r.text)
        check_perm(lst, base, 'seed %s list' % s, viol, sig)
        if lst != ref:
            viol.append(('differs_from_reference_permutation', sig, 'seed %s: listed %s, reference %s' % (s, lst, ref)))
        m = SEED_RE.findall(r.text)
        if m != [str(s)]:
            viol.append(('seed_not_reported', sig, 'seed %s: report lines %s' % (s, m)))
        if r.trace:
            viol.append(('list_mode_ran_code', sig, 'seed %s: trace %s' % (s, r.trace[:5])))
        if listonly:
            continue
        # verbose listings list the same order
        for vv in ('-v', '-vv', '-vvv'):
            r = runrt.run_world(spec, seed_args(s) + ['--list-tests', vv], probe=False)
            evals += 1
            if r.escaped:
                viol.append(('run_aborted', {'mode': 'list' + vv}, 'seed %s: %s' % (s, r.escaped_tb)))
            elif parse_listing(r.text) != ref:
                viol.append(('differs_from_reference_permutation', {'mode': 'list' + vv}, 'seed %s: --list-tests %s lists %s, reference %s' % (s, vv, parse_listing(r.text), ref)))
        # --list-tests together with -j N lists the same order
        r = runrt.run_world(spec, seed_args(s) + ['--list-tests', '-j2'], probe=False)
        evals += 1
        if r.escaped:
            viol.append(('run_aborted', {'mode': 'list_j2'}, 'seed %s: %s' % (s, r.escaped_tb)))
        else:
            # (the -j parent's artificial empty first layer has no tests)
            lj = {L: ts for L, ts in parse_listing(r.text).items() if ts or L in ref}
            if lj != ref:
                viol.append(('differs_from_reference_permutation', {'mode': 'list_j2'}, 'seed %s: --list-tests -j2 lists %s, reference %s' % (s, lj, ref)))
        for mode, argv, sp in (('seq', [], spec), ('j2', ['-j2'], spec),
                               ('resumed', [], spec_nie), ('v4', ['-vvvv'], spec),
                               ('v5+j2', ['-vvvvv', '-j2'], spec), ('p', ['-p'], spec)):
            sig = {'mode': mode}
            r = runrt.run_world(sp, seed_args(s) + argv, probe=False)
            evals += 1
            ex, procs = executed_orders(r, sp)
            b = base_nie if sp is spec_nie else base
            rf = ref_orders(s, b)
            check_perm(ex, b, 'seed %s %s' % (s, mode), viol, sig)
            if ex != rf:
                viol.append(('mode_order_differs', sig, 'seed %s mode %s: executed %s, reference/list order %s (processes %s)' % (s, mode, ex, rf, {k: sorted(v) for k, v in procs.items()})))
            seeds_rep = set(SEED_RE.findall(r.text))
            if seeds_rep != {str(s)}:
                viol.append(('seed_not_reported', sig, 'seed %s mode %s: report lines %s' % (s, mode, sorted(seeds_rep))))
            if mode == 'seq':
                continue
        for L in base:
            sig = {'mode': 'layer'}
            r = runrt.run_world(spec, seed_args(s) + ['--layer', re.escape(L) + '$'], probe=False)
            evals += 1
            ex, _ = executed_orders(r, spec)
            if ex != {L: ref[L]}:
                viol.append(('layer_filter_changes_order', sig, 'seed %s --layer %s: executed %s, unfiltered order %s' % (s, L, ex, ref[L])))
        # the same world in a module whose layers sort AFTER the unit-test
        # layer: de-selecting the unit tests (-f, --layer) must not change the
        # order of the others
        spz = build(wi, mod='zzw.tests')
        bz = unshuffled(spz)
        rz = ref_orders(s, bz)
        for flt in (['-f'], ['--layer', 'zzw'], ['--layer', '!UnitTests']):
            r = runrt.run_world(spz, seed_args(s) + flt, probe=False)
            evals += 1
            ex, _ = executed_orders(r, spz)
            want = {L: o for L, o in rz.items() if L.startswith('zzw')}
            if ex != want:
                viol.append(('layer_filter_changes_order', {'mode': 'filter_after_unit'}, 'seed %s %s (module zzw.tests): executed %s, unfiltered order %s' % (s, flt, ex, want)))
    return evals, viol


def run_diskrandom(wi, seeds):
    """Real discovery: the test module seeds / draws from the module-level
    random generator while it is imported; the shuffled order must still be the
    reference permutation, in the listing and in the run."""
    import sys
    from vt import env
    from vt import worldrt
    viol = []
    evals = 0
    spec = build(wi)
    spec['prelude'] = 'import random\nrandom.seed(987654)\nrandom.random()\n'
    base = unshuffled(spec)
    root = env.scratch('vtc11')
    try:
        worldrt.write_disk(spec, root)
        added = root not in sys.path
        if added:
            sys.path.insert(0, root)
        try:
            for s in seeds:
                ref = ref_orders(s, base)
                for argv, what in ((['--list-tests'], 'list'), ([], 'run'), (['-vvvv'], 'run -vvvv')):
                    r = runrt.run_plain(['--path', root] + seed_args(s) + argv, roots=[root])
                    evals += 1
                    got = parse_listing(r.text) if what == 'list' else executed_orders(r, spec)[0]
                    if r.escaped:
                        viol.append(('run_aborted', {'mode': 'diskrandom'}, r.escaped_tb))
                    elif got != ref:
                        viol.append(('differs_from_reference_permutation', {'mode': 'diskrandom'}, 'seed %s, module seeds random at import, %s: %s, reference %s' % (s, what, got, ref)))
        finally:
            if added and root in sys.path:
                sys.path.remove(root)
    finally:
        env.rmtree(root)
    return evals, viol


SPELLINGS = {
    'two tokens': lambda n: ['--shuffle', '--shuffle-seed', str(n)],
    'one token': lambda n: ['--shuffle', '--shuffle-seed=%d' % n],
    'abbreviated': lambda n: ['--shuffle', '--shuffle-se', str(n)],
    'seed only': lambda n: ['--shuffle-seed', str(n)],
    'seed first': lambda n: ['--shuffle-seed=%d' % n, '--shuffle'],
    'given twice': lambda n: ['--shuffle', '--shuffle-seed', str(n + 1), '--shuffle-seed', str(n)],
    'in defaults': lambda n: None,
}


def run_spell(wi, seeds):
    """every spelling of the seed option gives the reference order of that
    seed, in the listing and in every kind of run, and reports that seed"""
    viol = []
    evals = 0
    for s in seeds:
        for sp_name, mk in SPELLINGS.items():
            for mode, argv, nie in (('list', ['--list-tests'], False), ('seq', [], False),
                                    ('j2', ['-j2'], False), ('resumed', [], True)):
                sp = build(wi, nie=nie)
                ref = ref_orders(s, unshuffled(sp))
                want_rep = {str(s)}
                if sp_name == 'seed only':
                    # a seed without --shuffle: nothing is shuffled or reported
                    ref, want_rep = unshuffled(sp), set()
                sig = {'mode': mode, 'spelling': sp_name}
                if sp_name == 'in defaults':
                    r = runrt.run_world(sp, argv, probe=False, defaults=['--shuffle', '--shuffle-seed', str(s)])
                else:
                    r = runrt.run_world(sp, mk(s) + argv, probe=False)
                evals += 1
                if r.escaped:
                    viol.append(('run_aborted', sig, r.escaped_tb))
                    continue
                got = parse_listing(r.text) if mode == 'list' else executed_orders(r, sp)[0]
                if got != ref:
                    viol.append(('differs_from_reference_permutation', sig, 'seed %s spelled %s, %s: %s, reference %s' % (s, sp_name, mode, got, ref)))
                reps = set(SEED_RE.findall(r.text))
                if reps != want_rep:
                    viol.append(('seed_not_reported', sig, 'seed %s spelled %s, %s: report lines %s' % (s, sp_name, mode, sorted(reps))))
    return evals, viol


def run_seedless(wi):
    viol = []
    evals = 0
    saved = SH.time
    try:
        for mode, argv, nie in (('seq', [], False), ('j2', ['-j2'], False), ('resumed', [], True)):
            sp = build(wi, nie=nie)
            base = unshuffled(sp)
            SH.time = _Clock()
            r = runrt.run_world(sp, ['--shuffle'] + argv, probe=False)
            evals += 1
            sig = {'mode': mode, 'seedless': True}
            ex, procs = executed_orders(r, sp)
            check_perm(ex, base, 'seedless %s' % mode, viol, sig)
            reps = SEED_RE.findall(r.text)
            if not reps:
                viol.append(('seed_not_reported', sig, r.text[-300:]))
                continue
            if len(set(reps)) != 1:
                viol.append(('several_seeds_reported', sig, 'mode %s: the run reports seeds %s - no single seed reproduces it' % (mode, reps)))
            rep = int(reps[-1])
            SH.time = _Clock()
            r2 = runrt.run_world(sp, seed_args(rep) + argv, probe=False)
            evals += 1
            ex2, _ = executed_orders(r2, sp)
            if ex2 != ex:
                viol.append(('reported_seed_does_not_reproduce', sig, 'mode %s: seedless run executed %s; re-run with reported seed %s executed %s' % (mode, ex, rep, ex2)))
            r3 = runrt.run_world(sp, seed_args(rep) + ['--list-tests'], probe=False)
            evals += 1
            if parse_listing(r3.text) != ex:
                viol.append(('listing_with_reported_seed_differs', sig, 'mode %s: seedless run executed %s; --list-tests with the reported seed %s lists %s' % (mode, ex, rep, parse_listing(r3.text))))
    finally:
        SH.time = saved
    return evals, viol


STUB = '''
import hashlib, sys
sys.path.insert(0, %(root)r)
from zope.testrunner.shuffle import Shuffle
class Suite(list):
    pass
class O: pass
class Rn: pass
h = hashlib.sha256()
for seed in range(%(nseeds)d):
    for n in range(8):
        rn = Rn(); rn.options = O(); rn.options.shuffle = True; rn.options.shuffle_seed = seed
        rn.options.original_testrunner_args = ['x']
        rn.tests_by_layer_name = {'b': Suite(range(n)), 'a': Suite(range(3)), 'c': Suite(range(n, 0, -1))}
        s = Shuffle(rn); s.global_setup()
        h.update(repr(sorted((k, list(v)) for k, v in rn.tests_by_layer_name.items())).encode())
print('DIGEST', h.hexdigest())
'''


def ref_digest(nseeds):
    h = hashlib.sha256()
    for seed in range(nseeds):
        for n in range(8):
            d = ref_orders(seed, {'b': list(range(n)), 'a': list(range(3)), 'c': list(range(n, 0, -1))})
            h.update(repr(sorted((k, list(v)) for k, v in d.items())).encode())
    return h.hexdigest()


def run_interp(nseeds):
    root = env.scratch('vtc11')
    viol = []
    digs = {}
    try:
        os.makedirs(os.path.join(root, 'zope', 'testrunner'))
        open(os.path.join(root, 'zope', '__init__.py'), 'w').close()
        open(os.path.join(root, 'zope', 'testrunner', '__init__.py'), 'w').close()
        with open(os.path.join(root, 'zope', 'testrunner', 'feature.py'), 'w') as f:
            f.write('class Feature:\n    active = False\n    def __init__(self, runner):\n        self.runner = runner\n')
        shutil.copy(os.path.join(env.REPO_SRC, 'zope', 'testrunner', 'shuffle.py'),
                    os.path.join(root, 'zope', 'testrunner', 'shuffle.py'))
        script = STUB % {'root': root, 'nseeds': nseeds}
        for v in ('3.9', '3.10', '3.11', '3.12', '3.13'):
            pys = sorted(glob.glob('/root/.pyenv/versions/%s.*/bin/python' % v))
            if not pys:
                digs[v] = 'MISSING'
                continue
            p = subprocess.run([pys[-1], '-S', '-c', script], stdout=subprocess.PIPE,
                               stderr=subprocess.PIPE, timeout=900,
                               env={'PATH': '/usr/bin:/bin', 'PYTHONHASHSEED': '0'})
            d = [ln for ln in p.stdout.decode().splitlines() if ln.startswith('DIGEST')]
            digs[v] = d[0].split()[1] if d else 'ERROR ' + p.stderr.decode()[-300:]
    finally:
        env.rmtree(root)
    digs['reference'] = ref_digest(nseeds)
    if len(set(digs.values())) != 1:
        viol.append(('interpreter_dependence', {'part': 'interp'}, str(digs)))
    return len(digs) * nseeds * 8, viol


def run_case(case):
    kind, a, b = case
    if kind == 'ctc':
        CTC[0] = True
        try:
            evals, vs = run_modes(a, b, False)
        finally:
            CTC[0] = False
        vs = [(c, dict(sg, ctc=True), d) for c, sg, d in vs]
    elif kind == 'modes':
        evals, vs = run_modes(a, b, False)
    elif kind == 'list':
        evals, vs = run_modes(a, b, True)
    elif kind == 'seedless':
        evals, vs = run_seedless(a)
    elif kind == 'spell':
        evals, vs = run_spell(a, b)
    elif kind == 'diskrandom':
        evals, vs = run_diskrandom(a, b)
    else:
        evals, vs = run_interp(a)
    viol = [{'clause': c, 'sig': s, 'detail': d, 'case': case} for c, s, d in vs[:30]]
    nt = evals
    if kind != 'interp':
        sizes, unit = world_list()[a]
        if max(sizes + [unit]) < 2:
            nt = 0
    return {'evals': evals, 'nontrivial': nt, 'violations': viol, 'outcome': kind}
