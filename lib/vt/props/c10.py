"""C10 — layer run order: deterministic, unit tests first, bases first, once."""
import hashlib
import itertools
import json
import os
import subprocess
import sys

from vt import env
from vt import runrt
from vt import worldrt
from vt import worlds

ID = 'C10'
LEVEL = 'exploration'
RULE = ('every labelled DAG with ordered bases on <=N named layers (each '
        'labelled graph once: only its smallest-name-first topological '
        'numbering is kept) x {instance layers, class layers when C3 allows} x '
        'subsets of layers owning tests x input orders, fed to the real '
        'order_by_bases; with the unit layer through the real '
        'Runner.ordered_layers() for every insertion order of '
        'tests_by_layer_name; end to end the "Running X tests:" header '
        'sequence of real runs; and the n<=3 results digested under several '
        'PYTHONHASHSEED values in sub-interpreters. non-trivial = >=2 layers '
        'in the subset')
ASSUMPTIONS = [
    'layer names are single letters a..e (every assignment of names to nodes is covered, so name-dependence of the sort key is exercised)',
]
BOUND = {
    'quick': 'n<=4: all labelled DAGs x kinds x all subsets x all input orders; n=5: all 487656 labelled DAGs, instance layers, full set and every 3-subset, 2 input orders; ordered_layers + real runs for n<=3; 3 hash seeds for n<=3',
    'thorough': 'n=5 with every subset and 3 input orders and class layers too; 8 hash seeds for n<=4',
}
CHUNK = 4
NAMES = 'abcde'
UNIT = 'zope.testrunner.layer.UnitTests'


def _one_cpu_filter(case):
    return case[0] in ('twins', 'bigworld') or (case[0] == 'e2e' and case[1] <= 2)


# the number of usable CPUs is part of the environment
ENV_PASSES = [{'name': 'one usable CPU', 'argv': [], 'env': {'VT_ONE_CPU': '1', 'VT_NPROC': '2'}, 'filter': _one_cpu_filter}]


def canonical(g, perm):
    """Is position order the smallest-name-first topological order of the
    labelled graph (g in topological numbering, node i named NAMES[perm[i]])?"""
    n = len(g)
    done = set()
    for pos in range(n):
        # available = nodes whose bases are all done; must pick smallest name
        best = None
        for i in range(n):
            if i in done:
                continue
            if all(b in done for b in g[i]):
                if best is None or perm[i] < perm[best]:
                    best = i
        if best != pos:
            return False
        done.add(pos)
    return True


def cases(tier, seed):
    for n in (1, 2, 3, 4):
        gs = list(worlds.dags(n))
        for gi in worlds.rot(range(len(gs)), seed):
            yield ['direct', n, gi, 'full']
    gs5 = list(worlds.dags(5))
    step = 20
    for start in worlds.rot(range(0, len(gs5), step), seed):
        yield ['direct', 5, [start, min(len(gs5), start + step)], tier]
    for n in (1, 2, 3):
        gs = list(worlds.dags(n))
        for gi in range(len(gs)):
            yield ['ordered_layers', n, gi]
            yield ['e2e', n, gi]
    seeds = [0, 1, 2] if tier == 'quick' else list(range(8))
    if seed not in seeds:
        seeds.append(seed % 4294967295)
    for pair in itertools.permutations(TWINS, 2):
        for mode in ('seq', 'resumed', 'j2'):
            yield ['twins', list(pair), mode]
    # more than nine layers in subprocesses (header order == sequential order)
    yield ['bigworld', 12, None]
    yield ['bigworld', 23, None]
    # the header sequence must not depend on which child finishes first: real
    # processes, completion orders forced with barrier files (shared with C06)
    for perm in (['C', 'B', 'A'], ['B', 'C', 'A'], ['C', 'A', 'B']):
        for v in (0, 2):
            yield ['realorder', perm, v]
    yield ['hashseeds', 3 if tier == 'quick' else 4, seeds]


def setup_worker():
    runrt._mods()
    global R, F
    import zope.testrunner.find as F
    import zope.testrunner.runner as R


def make_objs(g, perm, kind):
    objs = []
    for i, bs in enumerate(g):
        nm = NAMES[perm[i]]
        if kind == 'i':
            objs.append(worldrt.InstLayer(nm, 'm', [objs[b] for b in bs]))
        elif kind == 'e':
            # layers compared by value (IMinimalTestLayer asks for __name__,
            # __module__ and __bases__ only): every mention of a base is a
            # fresh object equal to the layer of that name
            def copy(j):
                return worldrt.EqLayer(NAMES[perm[j]], 'm', [copy(b) for b in g[j]])
            objs.append(worldrt.EqLayer(nm, 'm', [copy(b) for b in bs]))
        else:
            objs.append(type(nm, tuple(objs[b] for b in bs) or (object,), {'__module__': 'm'}))
    return objs


def anc_sets(g):
    out = []
    for i in range(len(g)):
        out.append(worlds.closure_idx(g, i) - {i})
    return out


def check_result(res, subset_objs, objs, anc, where, viol, sigextra):
    key = (lambda o: o.__name__) if isinstance(objs[0], worldrt.EqLayer) else id
    idx = {key(o): i for i, o in enumerate(objs)}
    got = [idx.get(key(o)) for o in res]
    want = sorted(idx[key(o)] for o in subset_objs)
    if sorted(x for x in got if x is not None) != want or None in got or len(got) != len(want):
        viol.append(('not_a_permutation', where, got))
        return None
    pos = {x: k for k, x in enumerate(got)}
    for x in got:
        for a in anc[x]:
            if a in pos and pos[a] > pos[x]:
                viol.append(('layer_before_its_base', where, got))
                return got
    return got


def run_direct(n, gsel, mode):
    gs = list(worlds.dags(n))
    if isinstance(gsel, list):
        graphs = gs[gsel[0]:gsel[1]]
    else:
        graphs = [gs[gsel]]
    viol = []
    evals = 0
    nt = 0
    for g in graphs:
        anc = anc_sets(g)
        c3 = worlds.c3_ok(g)
        for perm in itertools.permutations(range(n)):
            if not canonical(g, perm):
                continue
            kinds = ['i']
            if c3 and (n <= 4 or mode == 'thorough'):
                kinds.append('c')
            if n <= 4:
                kinds.append('e')
            for kind in kinds:
                objs = make_objs(g, perm, kind)
                if n <= 4:
                    subsets = list(worlds.nonempty_subsets(n))
                elif mode == 'thorough':
                    subsets = list(worlds.nonempty_subsets(n))
                else:
                    subsets = [s for s in worlds.nonempty_subsets(n) if len(s) in (3, n)]
                for sub in subsets:
                    so = [objs[i] for i in sub]
                    if n <= 4:
                        orders = list(itertools.permutations(so))
                    elif mode == 'thorough':
                        orders = [so, so[::-1], so[1:] + so[:1]]
                    else:
                        orders = [so, so[::-1]]
                    first = None
                    if len(sub) >= 2:
                        nt += 1
                    for od in orders:
                        evals += 1
                        where = (n, g, list(perm), kind, sub)
                        try:
                            res = R.order_by_bases(list(od))
                        except Exception as e:
                            viol.append(('exception', where, repr(e)))
                            break
                        got = check_result(res, so, objs, anc, where, viol, None)
                        if got is None:
                            break
                        if first is None:
                            first = got
                        elif got != first:
                            viol.append(('input_order_dependence', where, (first, got)))
                            break
    return evals, nt, viol


class _Opt:
    processes = 1
    resume_layer = None


def run_ordered_layers(n, gi):
    """The real Runner.ordered_layers() incl. the unit layer, for every
    insertion order of tests_by_layer_name."""
    import unittest
    from zope.testrunner.layer import UnitTests
    g = list(worlds.dags(n))[gi]
    anc = anc_sets(g)
    viol = []
    evals = 0
    nt = 0
    for perm in itertools.permutations(range(n)):
        if not canonical(g, perm):
            continue
        for kind in ['i'] + (['c'] if worlds.c3_ok(g) else []):
            objs = make_objs(g, perm, kind)
            for sub in worlds.nonempty_subsets(n):
                for unit in (False, True):
                    names = [F.name_from_layer(objs[i]) for i in sub]
                    if unit:
                        names.append(F.name_from_layer(UnitTests))
                    first = None
                    nt += 1 if len(names) >= 2 else 0
                    for od in itertools.permutations(names):
                        evals += 1
                        r = R.Runner()
                        r.options = _Opt
                        F._layer_name_cache.clear()
                        for o in objs:
                            F.name_from_layer(o)
                        F.name_from_layer(UnitTests)
                        r.tests_by_layer_name = {nm: unittest.TestSuite() for nm in od}
                        got = [x[0] for x in r.ordered_layers()]
                        where = (n, g, list(perm), kind, sub, unit)
                        if sorted(got) != sorted(names):
                            viol.append(('not_a_permutation', where, got))
                            break
                        if unit and got[0] != UNIT:
                            viol.append(('unit_layer_not_first', where, got))
                            break
                        pos = {nm: k for k, nm in enumerate(got)}
                        bad = False
                        for i in sub:
                            for a in anc[i]:
                                na, ni = 'm.' + NAMES[perm[a]], 'm.' + NAMES[perm[i]]
                                if na in pos and pos[na] > pos[ni]:
                                    bad = True
                        if bad:
                            viol.append(('layer_before_its_base', where, got))
                            break
                        if first is None:
                            first = got
                        elif got != first:
                            viol.append(('input_order_dependence', where, (first, got)))
                            break
    F._layer_name_cache.clear()
    return evals, nt, viol


def run_e2e(n, gi):
    g = list(worlds.dags(n))[gi]
    anc = anc_sets(g)
    viol = []
    evals = 0
    nt = 0
    # (shape outermost: a world whose tests name their layers by dotted string
    # then follows a world with the same names on OTHER nodes of the graph -
    # nothing of the earlier run may be used to resolve the names)
    for shape, perm in ((sh, p) for sh in (None, 'eq', 'lstr') for p in itertools.permutations(range(n))):
        if not canonical(g, perm):
            continue
        names = [NAMES[perm[i]] for i in range(n)]
        ref_objs = make_objs(g, perm, 'i')
        for sub in worlds.nonempty_subsets(n):
            ref = ['vtw.tests.' + o.__name__ for o in
                   R.order_by_bases([ref_objs[i] for i in sub])]
            for unit, nie in ((u, ni) for u in (False, True) for ni in (False, True)):
                if True:
                    layers = worlds.layer_specs(g, 'i', names, [list(worlds.HOOKS_SD)] * n)
                    if shape == 'eq':
                        for L in layers:
                            L['ish'] = 'eq'
                    if nie:
                        # 'A' sorts before a..e: it runs first, cannot be torn
                        # down, so every other layer is resumed in a child
                        layers.insert(0, {'n': 'A', 'b': [], 'k': 'i',
                                          'h': list(worlds.HOOKS_SD),
                                          'f': {'tearDown': 'NIE'}})
                    for order in (sub, sub[::-1]):
                        # shape 'lstr': the tests name their layer by dotted string
                        tests = [{'n': 't' + names[i], 'l': names[i], 's': 'pass', 'lstr': shape == 'lstr'} for i in order]
                        if unit:
                            tests.insert(len(tests) // 2, {'n': 'u', 'l': None, 's': 'pass'})
                        if nie:
                            tests.append({'n': 'tA', 'l': 'A', 's': 'pass'})
                        res = runrt.run_world({'layers': layers, 'tests': tests}, [], probe=False)
                        evals += 1
                        hdr = runrt.HDR_RE.findall(res.text)
                        want = ([UNIT] if unit else []) + (['vtw.tests.A'] if nie else []) + ref
                        where = (n, g, list(perm), sub, unit, nie, shape)
                        if hdr != want:
                            viol.append(('header_sequence', where, (hdr, want)))
                        # execution order of the layers, from the trace
                        seq = []
                        for ev in res.trace:
                            if ev[1] == 't' and ev[3] == 'body':
                                lay = ev[2][1:]
                                nm = UNIT if ev[2] == 'u' else 'vtw.tests.' + lay
                                if not seq or seq[-1] != nm:
                                    seq.append(nm)
                        if seq != want:
                            viol.append(('execution_sequence', where, (seq, want)))
                        pos = {h: k for k, h in enumerate(seq)}
                        for i in sub:
                            for a in anc[i]:
                                na, ni = 'vtw.tests.' + names[a], 'vtw.tests.' + names[i]
                                if na in pos and ni in pos and pos[na] > pos[ni]:
                                    viol.append(('layer_before_its_base', where, seq))
                    if len(sub) + unit >= 2:
                        nt += 1
    return evals, nt, viol


TWINS = ['a.b', 'a_b', 'ab', 'x[y]', 'p+q', 'a|b', 'a.', 'a$',
         # names that differ in letter case only
         'aB', 'Ab', 'AB',
         # names that a "natural" / normalising sort key would not tell apart
         's1', 's01', 's001', 'a-b']


def run_twins(pair, mode):
    """Two layers whose names differ in a character that means something to a
    regex: each one must still run exactly once, as one group, in order."""
    names = list(pair)
    layers = [{'n': nm, 'b': [], 'k': 'i', 'h': list(worlds.HOOKS_SD)} for nm in names]
    tests = []
    for i, nm in enumerate(names):
        tests += [{'n': 't%d' % i, 'l': nm, 's': 'pass'}, {'n': 't%db' % i, 'l': nm, 's': 'pass'}]
    argv = []
    if mode == 'resumed':
        layers.insert(0, {'n': 'A', 'b': [], 'k': 'i', 'h': list(worlds.HOOKS_SD),
                          'f': {'tearDown': 'NIE'}})
        tests.append({'n': 'tA', 'l': 'A', 's': 'pass'})
    elif mode == 'j2':
        argv = ['-j2']
    res = runrt.run_world({'layers': layers, 'tests': tests}, argv, probe=False)
    # the same world discovered in the opposite order
    res_rev = runrt.run_world({'layers': layers, 'tests': tests[::-1]}, argv, probe=False)
    objs = {nm: worlds_inst(nm) for nm in names}
    ref = ['vtw.tests.' + o.__name__ for o in R.order_by_bases([objs[nm] for nm in names])]
    want = (['vtw.tests.A'] if mode == 'resumed' else []) + ref
    hdr = [h for h in runrt.HDR_RE.findall(res.text)]
    viol = []
    where = (names, mode)
    if hdr != want and not (mode == 'j2' and hdr[1:] == want):
        viol.append(('header_sequence', where, (hdr, want)))
    hdr_rev = [h for h in runrt.HDR_RE.findall(res_rev.text)]
    if hdr_rev != hdr:
        viol.append(('order_depends_on_discovery_order', where, (hdr, hdr_rev)))
    groups = []
    for ev in res.trace:
        if ev[1] == 't' and ev[3] == 'body':
            k = (ev[0], ev[2][:2])
            if not groups or groups[-1] != k:
                groups.append(k)
    if sorted(g[1] for g in groups) != sorted({t['n'][:2] for t in tests}):
        viol.append(('layer_not_run_once_as_one_group', where, groups))
    return 1, 1, viol


def worlds_inst(name):
    from vt import worldrt
    return worldrt.InstLayer(name, 'vtw.tests', ())


def digest_small(nmax):
    """Digest of order_by_bases results for all labelled graphs n<=nmax
    (names only, so comparable between interpreters)."""
    h = hashlib.sha256()
    for n in range(1, nmax + 1):
        for g in worlds.dags(n):
            for perm in itertools.permutations(range(n)):
                if not canonical(g, perm):
                    continue
                objs = make_objs(g, perm, 'i')
                for sub in worlds.nonempty_subsets(n):
                    so = [objs[i] for i in sub]
                    for od in (so, so[::-1]):
                        res = R.order_by_bases(list(od))
                        h.update(''.join(o.__name__ for o in res).encode() + b'|')
    return h.hexdigest()


def run_case(case):
    kind = case[0]
    if kind == 'direct':
        evals, nt, vs = run_direct(case[1], case[2], case[3])
    elif kind == 'ordered_layers':
        evals, nt, vs = run_ordered_layers(case[1], case[2])
    elif kind == 'e2e':
        evals, nt, vs = run_e2e(case[1], case[2])
    elif kind == 'twins':
        evals, nt, vs = run_twins(case[1], case[2])
    elif kind == 'bigworld':
        from vt import ow
        spec = ow.big_spec(nlayers=case[1], ntests=2, scripts=['pass'])
        base = runrt.run_world(spec, [], probe=False)
        hb = runrt.HDR_RE.findall(base.text)
        vs = []
        evals = 1
        for argv in (['-j2'], ['-j3', '-vv'], ['-j30']):
            r = runrt.run_world(spec, argv, probe=False)
            evals += 1
            hs = [h for h in runrt.HDR_RE.findall(r.text) if h != '.EmptyLayer']
            if hs != hb:
                vs.append(('header_sequence', (case[1], argv), (hs, hb)))
        nt = evals
    elif kind == 'realorder':
        from vt.props import c06
        ev, vv = c06.run_realorder(case[1], 3, case[2])
        evals, nt = ev, ev
        vs = [(c, (case[1], case[2]), d) for c, sg, d in vv if c in ('layer_blocks_out_of_order', 'parent_hangs', 'harness_order_not_forced')]
    else:
        nmax, seeds = case[1], case[2]
        digs = {}
        for hs in seeds:
            e = env.child_env({'PYTHONHASHSEED': str(hs)})
            out = subprocess.run(
                [env.PY, '-c',
                 'import sys; sys.path.insert(0, %r)\n'
                 'from vt import env; env.bootstrap()\n'
                 'from vt.props import c10; c10.setup_worker()\n'
                 'print("DIGEST", c10.digest_small(%d))' % (env.LIB, nmax)],
                env=e, stdout=subprocess.PIPE, stderr=subprocess.PIPE, timeout=900)
            d = [ln for ln in out.stdout.decode().splitlines() if ln.startswith('DIGEST')]
            digs[hs] = d[0].split()[1] if d else 'ERROR: ' + out.stderr.decode()[-300:]
        vs = []
        if len(set(digs.values())) != 1 or any(v.startswith('ERROR') for v in digs.values()):
            vs.append(('hash_seed_dependence', nmax, digs))
        evals, nt = len(seeds), len(seeds)
    viol = []
    for clause, where, info in vs[:20]:
        viol.append({'clause': clause, 'sig': {'part': kind},
                     'detail': 'where=%s info=%s' % (json.dumps(where, default=repr), info),
                     'case': case})
    return {'evals': evals, 'nontrivial': nt, 'violations': viol,
            'outcome': kind, 'nogate': kind in ('realorder', 'hashseeds')}
