"""C18 — interpreter-global state changed for a run is restored afterwards."""
import io
import itertools
import os
import shutil

from vt import runrt
from vt import worlds

ID = 'C18'
LEVEL = 'exploration'
RULE = ('configurations = every subset (size <=S) of {--gc 5, --gc 5 3 2, -G '
        'DEBUG_UNCOLLECTABLE, --coverage DIR, --profile cProfile, --buffer, --gc-after-test -vvvv, '
        'warnings="error", -D with scripted stdin, --list-tests} x every way the test phase '
        'ends {all pass, failing+erroring tests, layer testSetUp raises, layer '
        'testTearDown raises, KeyboardInterrupt in a test body, '
        'KeyboardInterrupt in a test setUp, -x with a failing test, '
        'SystemExit from a layer setUp, a test that adds warnings filters, a test that calls sys.settrace(f) and sys.settrace(None), a layer that swaps sys.stdout in setUp/tearDown, a layer that removes the search path from sys.path, a test that leaves sys.stdout replaced (with --buffer)}; the real Runner is run in-process and '
        'a snapshot of gc thresholds/debug flags, traceback.format_exception / '
        'print_exception, sys.settrace (the function), the active trace and '
        'profile hooks (sys and threading), warnings.filters and the identity '
        'of sys.stdout/sys.stderr is compared before/after. non-trivial = >=1 '
        'option or an abnormal ending')
ASSUMPTIONS = [
    'signal handlers (pdb installs a SIGINT handler) and logging handlers are not part of the stated state',
]
BOUND = {'quick': 'subsets of size <=3 (232) x 15 endings', 'thorough': 'all 2048 subsets x 15 endings'}
CHUNK = 8

OPTS = ['gc1', 'gc3', 'G', 'cov', 'prof', 'buf', 'warn', 'D', 'gcat', 'list', 'path2', 'profbr']
ENDS = ['normal', 'fail', 'hookS', 'hookD', 'kbint', 'kbint_setup', 'x', 'sysexit_layer',
        'warnfilter', 'leave_replaced', 'settrace', 'layer_swaps', 'layer_unpaths',
        'garbage_small', 'garbage_big', 'close_out', 'nested']


def cases(tier, seed):
    S = 3 if tier == 'quick' else len(OPTS)
    for k in range(S + 1):
        for sub in itertools.combinations(OPTS, k):
            if 'prof' in sub and 'profbr' in sub:
                continue
            for e in worlds.rot(ENDS, seed):
                if e in ('leave_replaced', 'close_out') and 'buf' not in sub:
                    # without --buffer the runner never touches the streams
                    continue
                yield [list(sub), e]
    # the same from a state that is not the interpreter's default one: gc
    # debug flags and thresholds set by the embedding application, an extra
    # warnings filter (restoring "the defaults" is not restoring)
    for k in (0, 1, 2):
        for sub in itertools.combinations(OPTS, k):
            if 'prof' in sub and 'profbr' in sub:
                continue
            for e in ENDS:
                if e in ('leave_replaced', 'close_out') and 'buf' not in sub:
                    continue
                if k == 2 and e not in ('normal', 'fail', 'kbint', 'x'):
                    continue
                yield [list(sub), e, 'pre']


def setup_worker():
    runrt._mods()
    global WD
    WD = '/dev/shm/vt-c18-%d' % os.getpid()
    import atexit
    atexit.register(shutil.rmtree, WD, True)


def build(end):
    A = {'n': 'A', 'b': [], 'k': 'c', 'h': list(worlds.HOOKS_ALL)}
    B = {'n': 'B', 'b': [], 'k': 'c', 'h': list(worlds.HOOKS_SD)}
    q1 = 'pass'
    q2 = 'pass'
    if end == 'fail':
        q1, q2 = 'fail', 'error'
    elif end == 'hookS':
        A['f'] = {'testSetUp': 'ValueError'}
    elif end == 'hookD':
        A['f'] = {'testTearDown': 'ValueError'}
    elif end == 'kbint':
        q1 = 'kbint'
    elif end == 'kbint_setup':
        q1 = 'kbint_setup'
    elif end == 'x':
        q1 = 'fail'
    elif end == 'sysexit_layer':
        B['f'] = {'setUp': 'SystemExit'}
    elif end == 'warnfilter':
        # a test that installs warnings filters of its own
        q1 = 'warnfilter'
    elif end == 'layer_swaps':
        # no unit tests; the first layer runs with a private sys.stdout that it
        # installs in setUp and removes in tearDown
        A['sw'] = True
    elif end == 'layer_unpaths':
        A['unpath'] = True
    elif end == 'garbage_small':
        q1 = 'garbage:50'
    elif end == 'garbage_big':
        # more cyclic garbage than any "small" limit (4096, 10000 ...)
        q1 = 'garbage:20000'
    elif end == 'settrace':
        # a well-behaved test that installs a trace function and removes it
        q1 = 'settrace'
    elif end == 'leave_replaced':
        q1 = 'leave_replaced'
    elif end == 'nested':
        # a test that runs the test runner in-process (what the runner's own
        # tests and those of its plug-ins do): two runs are active at once
        q1 = 'nested_fail'
    elif end == 'close_out':
        # a test that closes the streams it finds in sys.stdout / sys.stderr
        q1 = 'close_out'

    tests = [{'n': 'q0', 'l': 'A', 's': 'pass'}, {'n': 'q1', 'l': 'A', 's': q1},
             {'n': 'q2', 'l': 'A', 's': q2}, {'n': 'q3', 'l': 'B', 's': 'pass'}]
    return {'layers': [A, B], 'tests': tests}


def history_key(case):
    """second run in one process: every single option with a normal ending"""
    if len(case) == 2 and len(case[0]) <= 1 and case[1] == 'normal':
        return tuple(case[0])
    return None


HISTORY_MAX = 13


def run_case(case):
    if len(case) > 2 and case[2] == 'pre':
        import gc
        import warnings
        saved = (gc.get_debug(), gc.get_threshold(), list(warnings.filters))
        gc.set_debug(gc.DEBUG_UNCOLLECTABLE)
        gc.set_threshold(701, 11, 9)
        warnings.filterwarnings('ignore', message='vt pre-state filter')
        try:
            r = run_case(case[:2])
        finally:
            gc.set_debug(saved[0])
            gc.set_threshold(*saved[1])
            warnings.filters[:] = saved[2]
            if hasattr(warnings, '_filters_mutated'):
                warnings._filters_mutated()
        for v in r['violations']:
            v['sig'] = dict(v['sig'], pre=True)
            v['detail'] = '(run started with gc debug flags DEBUG_UNCOLLECTABLE, thresholds (701, 11, 9), one extra warnings filter)\n' + v['detail']
        r['outcome'] = ('pre',) + tuple(r['outcome'])
        return r
    sub, end = case
    shutil.rmtree(WD, ignore_errors=True)
    os.makedirs(WD)
    argv = []
    warn = None
    stdin = None
    for o in sub:
        if o == 'gc1':
            argv += ['--gc', '5']
        elif o == 'gc3':
            argv += ['--gc', '5', '--gc', '3', '--gc', '2']
        elif o == 'G':
            argv += ['-G', 'DEBUG_UNCOLLECTABLE']
        elif o == 'cov':
            argv += ['--coverage', os.path.join(WD, 'cov')]
        elif o == 'prof':
            argv += ['--profile', 'cProfile', '--profile-directory', WD]
        elif o == 'profbr':
            # a profile directory whose name is a glob pattern that does not
            # match itself: the profiler's final step fails
            os.makedirs(os.path.join(WD, 'prof[1]'), exist_ok=True)
            argv += ['--profile', 'cProfile', '--profile-directory', os.path.join(WD, 'prof[1]')]
        elif o == 'buf':
            argv += ['--buffer']
        elif o == 'warn':
            warn = 'error'
        elif o == 'gcat':
            # --gc-after-test with -vvvv switches gc debug flags per test
            argv += ['--gc-after-test', '-vvvv']
        elif o == 'list':
            argv += ['--list-tests']
        elif o == 'path2':
            # the same search path twice (wrapper defaults + command line)
            os.makedirs(os.path.join(WD, 'p'), exist_ok=True)
            argv += ['--path', os.path.join(WD, 'p'), '--path', os.path.join(WD, 'p')]
        elif o == 'D':
            argv += ['-D']
            stdin = io.StringIO('c\n' * 20)
    if end == 'x':
        argv += ['-x']
    try:
        res = runrt.run_world(build(end), argv, warnings=warn, want_state=True,
                              stdin=stdin, probe=False)
    finally:
        shutil.rmtree(WD, ignore_errors=True)
    viol = []
    diff = {k: (res.state_before[k], res.state_after[k])
            for k in res.state_before if res.state_before[k] != res.state_after[k]}
    sig = {'end': end}
    for k, (a, b) in sorted(diff.items()):
        viol.append({'clause': 'state_not_restored', 'sig': dict(sig, what=k, opts=sorted(set(sub) & WHO.get(k, set()))),
                     'detail': 'opts=%s ending=%s: %s before=%s after=%s (escaped: %s)' % (sub, end, k, str(a)[:200], str(b)[:200], res.escaped)})
    if res.streams_after != (True, True):
        viol.append({'clause': 'std_streams_not_restored', 'sig': dict(sig, buf=('buf' in sub)),
                     'detail': 'opts=%s ending=%s: sys.stdout/sys.stderr original after the run: %s (escaped: %s)' % (sub, end, res.streams_after, res.escaped)})
    return {'nontrivial': bool(sub) or end != 'normal', 'violations': viol,
            'outcome': (end, res.escaped)}


WHO = {'gc_threshold': {'gc1', 'gc3'}, 'gc_debug': {'G', 'gcat'},
       'sys_trace': {'cov', 'D'}, 'sys_profile': {'prof'},
       'thr_trace': {'cov'}, 'thr_profile': {'prof'},
       'sys_settrace_func': {'cov'}, 'warn_filters': {'warn'},
       'tb_format_exception': set(), 'tb_print_exception': set(),
       'other_thread_trace': {'cov', 'D'}, 'other_thread_profile': {'prof', 'profbr'},
       'monitoring_tools': {'prof', 'cov', 'profbr'}}
