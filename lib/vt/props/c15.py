"""C15 — stale byte-code cleanup deletes only orphaned .pyc/.pyo files."""
import hashlib
import itertools
import os

from vt import env
from vt import runrt
from vt import worlds

ID = 'C15'
LEVEL = 'exploration'
RULE = ('trees = every subset of <=K entries of a 33-entry menu (sources, directories nested inside __pycache__ and ignored directories, '
        'orphaned and non-orphaned .pyc/.pyo, look-alike names, __pycache__, '
        'ignored and non-identifier directories, a sub package) materialised '
        'on tmpfs x option vectors (-k, --usecompiled, --path/--test-path, two '
        'overlapping search paths, two sibling search paths one of which is a string prefix of the other (3 spellings), --ignore_dir sub); the real runner is run '
        'with --list-tests and the file system is diffed (path, size, sha256, '
        'mtime): must-delete <= deleted <= may-delete, everything else '
        'identical, nothing created. non-trivial = tree has >=1 compiled file')
ASSUMPTIONS = [
    'orphans in directories the clean-up walk reaches but discovery does not (node_modules, non-identifier names) and the bare names ".pyc"/".pyo" may or may not be deleted - the statement does not settle them',
    'symlinks are outside the stated quantifier and outside the alphabet',
]
BOUND = {'quick': 'K<=3 of 33 entries and K=4 of the 12 flat names x 14 option vectors (3 of them with layer subprocesses)',
         'thorough': 'K<=5 of 33 entries and K=6 of the 12 flat names x 14 option vectors'}
CHUNK = 64

MENU = ['x.py', 'x.pyc', 'x.pyo', 'y.pyc', 'z.pyo', '.pyc', 'pyc', 'X.PYC',
        'x.pyc.bak', 'w.py.pyc', 'x.py,cover', 'readme.txt',
        '__pycache__/q.cpython-312.pyc', '__pycache__/orphan.pyc',
        '.git/g.pyc', 'CVS/c.pyc', 'node_modules/n.pyc', 'foo-bar/h.pyc',
        'sub/s.pyc', 'sub/t.py', 'sub/t.pyc', 'sub/__pycache__/v.pyc',
        'sub/deep/d.pyo',
        # directories *inside* a __pycache__ / an ignored directory, and a
        # sibling directory whose path starts with another search path
        '__pycache__/nest/n.pyc', 'sub/__pycache__/deep/m.pyo',
        '.git/inner/i.pyc', 'sub_compat/c.pyc', 'sub_compat/c2.py',
        'sub_compat/c2.pyc',
        # the same base name in a directory searched later (x.py lives in the
        # root), and a directory whose name looks like a shell pattern
        'sub/x.pyc', 'sub/deep/x.pyo', 'da[t]a/o.pyc', 'da[t]a/inner/p.pyo',
        # names that mean something to printf / str.format / a terminal
        '100%.pyo', 'my%20docs/r.pyc', '%s/%d.pyc', '{0}.pyc', 'caf\xe9.pyc',
        'a b/c d.pyc', 'node_modules/deep/m.pyo',
        # a line feed in the name: before the suffix (an orphan) and after it
        # (a look-alike that is no byte-code file)
        'a\nb.pyc', 'x.pyc\n', 'y.pyo\n',
        # orphans that are symbolic links: to a file outside every searched
        # directory, and to a .pyc that has its source beside it (the LINK is
        # the orphan; what it points to is somebody else's file)
        'lnk_out.pyc=>@store/legacy.bin', 'lnk_in.pyo=>sub/kept.pyc']
CORE = 12        # the flat names at the front of the menu
OPTS = {
    'path': lambda r: ['--path', r],
    'test-path': lambda r: ['--test-path', r],
    'two': lambda r: ['--path', r, '--test-path', os.path.join(r, 'sub')],
    'k': lambda r: ['--path', r, '-k'],
    'usecompiled': lambda r: ['--path', r, '--usecompiled'],
    'ignore_sub': lambda r: ['--path', r, '--ignore_dir', 'sub'],
    'k+two': lambda r: ['--keepbytecode', '--path', r, '--path', os.path.join(r, 'sub')],
    # the same in runs whose layers execute in child processes (the children
    # get the same arguments and clean up / must not clean up as well)
    'j2': lambda r: ['--path', r, '-j2'],
    'k+j2': lambda r: ['--path', r, '-k', '-j2'],
    'usecompiled+resumed': lambda r: ['--path', r, '--usecompiled'],
    # two sibling search paths, one a string prefix of the other
    'siblings': lambda r: ['--test-path', os.path.join(r, 'sub'), '--test-path', os.path.join(r, 'sub_compat')],
    'siblings_rev': lambda r: ['--path', os.path.join(r, 'sub_compat'), '--path', os.path.join(r, 'sub')],
    # a user-supplied ignore_dir that contains pattern characters
    'ignore_br': lambda r: ['--path', r, '--ignore_dir', 'da[t]a'],
    'siblings_mixed': lambda r: ['--path', os.path.join(r, 'sub_compat'), '--test-path', os.path.join(r, 'sub')],
    # a second search path BELOW a directory that the walk of the first one
    # skips (a default-ignored name / a user-supplied --ignore_dir): it is a
    # searched directory all the same
    'nested_git': lambda r: ['--path', r, '--path', os.path.join(r, '.git', 'inner')],
    'nested_ignored_sub': lambda r: ['--test-path', os.path.join(r, 'sub', 'deep'), '--ignore_dir', 'sub', '--path', r],
}
NESTED = {'nested_git': '.git/inner/', 'nested_ignored_sub': 'sub/deep/'}
SEARCHED = {'siblings': ('sub/', 'sub_compat/'), 'siblings_rev': ('sub/', 'sub_compat/'),
            'siblings_mixed': ('sub/', 'sub_compat/')}
CHILD_WORLD = {
    'layers': [{'n': 'A', 'b': [], 'k': 'c', 'h': ['setUp', 'tearDown'],
                'f': {'tearDown': 'NIE'}},
               {'n': 'B', 'b': [], 'k': 'c', 'h': ['setUp', 'tearDown']}],
    'tests': [{'n': 'a', 'l': 'A', 's': 'pass'}, {'n': 'b', 'l': 'B', 's': 'pass'}],
}
IGNORED = {'.git', '.svn', 'CVS', '{arch}', '.arch-ids', '_darcs'}


def many_entries(n):
    """n orphans spread over 6 packages (and as many files that must stay)."""
    out = []
    for i in range(n):
        d = 'pk%d' % (i % 6)
        out.append('%s/o%03d.%s' % (d, i, 'pyc' if i % 3 else 'pyo'))
        out.append('%s/k%03d.py' % (d, i))
        out.append('%s/k%03d.pyc' % (d, i))
        if i % 10 == 0:
            out.append('%s/__pycache__/c%03d.cpython-312.pyc' % (d, i))
    return out


ALIAS_ENTRIES = ['pkg/m.py', 'pkg/orphan.pyc', 'pkg/__pycache__/m.cpython-312.pyc', 'pkg/__pycache__/old.pyc',
                 'pkg/.svn/entries.pyc', 'pkg/CVS/c.pyc', 'pkg/sub/s.pyo', 'pkg/sub/__pycache__/x.pyc', 'other/o.pyc']


def cases(tier, seed):
    # a directory reachable a second time through a symbolic link inside the
    # search path (an alias of a package, a link to a parent)
    for link in ('alias->pkg', 'zalias->pkg', 'pkg/up->..', 'aaa->pkg/sub'):
        for ok in ('path', 'k', 'test-path'):
            yield [['alias', link], ok]
    # trees that are not small: 99 / 100 / 101 / 270 / 1000 orphans in one run
    for n in (99, 100, 101, 270, 1000):
        for ok in ('path', 'k', 'j2'):
            yield [['many', n], ok]
    idx = list(range(len(MENU)))
    if tier == 'quick':
        plan = [(k, idx) for k in range(0, 4)] + [(4, idx[:CORE])]
    else:
        plan = [(k, idx) for k in range(0, 6)] + [(6, idx[:CORE])]
    for k, pool in plan:
        for combo in itertools.combinations(pool, k):
            for ok in worlds.rot(list(OPTS), seed):
                yield [list(combo), ok]


def setup_worker():
    runrt._mods()
    global ROOT
    ROOT = env.scratch('vtc15')
    import atexit
    atexit.register(env.rmtree, ROOT)


def expand(entries):
    """-> (files to create, {link name: target}) for menu entries"""
    files, links = [], {}
    for e in entries:
        if '=>' in e:
            name, target = e.split('=>')
            links[name] = target
            if not target.startswith('@'):
                files.append(target)
                files.append(target[:-1])        # its source, beside it
        else:
            files.append(e)
    return files, links


def snapshot(root):
    d = {}
    for dp, dn, fn in os.walk(root):
        for f in fn:
            p = os.path.join(dp, f)
            st = os.lstat(p)
            if os.path.islink(p):
                d[os.path.relpath(p, root)] = ('link', os.readlink(p))
                continue
            with open(p, 'rb') as fh:
                h = hashlib.sha256(fh.read()).hexdigest()
            d[os.path.relpath(p, root)] = (st.st_size, h, st.st_mtime_ns)
        for x in dn:
            d[os.path.relpath(os.path.join(dp, x), root) + '/'] = None
    return d


def classify(entries, ok):
    """-> (must, may) sets of relative paths."""
    fs, links = expand(entries)
    entries = fs + list(links)
    files = set(entries)
    must, may = set(), set()
    if ok in ('k', 'usecompiled', 'k+two', 'k+j2', 'usecompiled+resumed'):
        return must, may
    for e in entries:
        d, base = os.path.split(e)
        if not (base.endswith('.pyc') or base.endswith('.pyo')):
            continue
        if ok in SEARCHED and not e.startswith(SEARCHED[ok]):
            continue
        parts = d.split('/') if d else []
        inner = NESTED.get(ok)
        if inner and e.startswith(inner):
            # below the nested search path: only what lies between it and the
            # file counts
            parts = [x for x in d[len(inner):].split('/') if x]
        if '__pycache__' in parts or any(p in IGNORED for p in parts):
            continue
        if ok in ('ignore_sub', 'nested_ignored_sub') and 'sub' in parts:
            continue
        if ok == 'ignore_br' and 'da[t]a' in parts:
            continue
        sib = os.path.join(d, base[:-1])
        if sib in files:
            continue
        stem = base[:-4]
        # (the scan descends into every directory that --ignore_dir does not
        # name: node_modules and directories that are no identifiers are
        # "searched" by it although discovery skips them)
        if stem == '':
            may.add(e)
        else:
            must.add(e)
            may.add(e)
    return must, may


def run_case(case):
    combo, ok = case
    link = None
    if combo and combo[0] == 'alias':
        entries = list(ALIAS_ENTRIES)
        link = combo[1]
    elif combo and combo[0] == 'many':
        entries = many_entries(combo[1])
    else:
        entries = [MENU[i] for i in combo]
    root = os.path.join(ROOT, 'r')
    env.rmtree(root)
    os.makedirs(os.path.join(root, 'sub'))     # search paths must exist
    os.makedirs(os.path.join(root, 'sub_compat'))
    if ok in NESTED:
        os.makedirs(os.path.join(root, NESTED[ok]), exist_ok=True)
    store = os.path.join(ROOT, 'store')
    env.rmtree(store)
    os.makedirs(store)
    fs, links = expand(entries)
    for e in fs:
        p = os.path.join(root, e)
        os.makedirs(os.path.dirname(p), exist_ok=True)
        with open(p, 'w') as f:
            f.write('# %r\n' % e)
    for name, target in links.items():
        if target.startswith('@'):
            tp = os.path.join(ROOT, target[1:])
            with open(tp, 'w') as f:
                f.write('somebody else\'s file\n')
        else:
            tp = os.path.join(root, target)
        os.symlink(tp, os.path.join(root, name))
    if link:
        name, target = link.split('->')
        os.symlink(os.path.join(root, os.path.dirname(name), target) if target == '..' else os.path.join(root, target),
                   os.path.join(root, name))
    before = snapshot(root)
    before.update({'@store/' + k: v for k, v in snapshot(store).items()})
    if ok in ('j2', 'k+j2', 'usecompiled+resumed'):
        res = runrt.run_world(CHILD_WORLD, OPTS[ok](root), probe=False)
        if not res.children:
            viol_pre = 'no child process ran'
    else:
        res = runrt.run_plain(OPTS[ok](root) + ['--list-tests'], roots=[root])
    after = snapshot(root)
    after.update({'@store/' + k: v for k, v in snapshot(store).items()})
    viol = []
    sig = {'opt': ok}
    if res.escaped:
        viol.append({'clause': 'run_aborted', 'sig': sig, 'detail': res.escaped_tb})
    deleted = {p for p in before if p not in after}
    created = {p for p in after if p not in before}
    changed = {p for p in before if p in after and before[p] != after[p]}
    must, may = classify(entries, ok)
    for p in sorted(deleted - may):
        viol.append({'clause': 'deleted_what_it_must_not', 'sig': dict(sig, name=os.path.basename(p), dir=os.path.dirname(p)),
                     'detail': 'tree=%s opts=%s: deleted %s' % (entries, ok, p)})
    for p in sorted(must - deleted):
        viol.append({'clause': 'orphan_not_deleted', 'sig': dict(sig, name=os.path.basename(p), dir=os.path.dirname(p)),
                     'detail': 'tree=%s opts=%s: kept %s' % (entries, ok, p)})
    for p in sorted(created | changed):
        viol.append({'clause': 'other_file_touched', 'sig': dict(sig, name=os.path.basename(p)),
                     'detail': 'tree=%s opts=%s: %s created/changed' % (entries, ok, p)})
    nt = any(e.split('=>')[0].lower().endswith(('.pyc', '.pyo')) for e in entries)
    return {'nontrivial': nt, 'violations': viol,
            'outcome': (len(deleted) > 0, ok),
            'counters': {'trees_with_deletion': 1 if deleted else 0}}
