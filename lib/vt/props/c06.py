"""C06 — -j N equals sequential; ordered contiguous output; <=N alive.

Model checking of the real resume_tests / spawn_layer_in_subprocess under the
controlled scheduler of vt.sched (all interleavings up to a preemption bound,
stateful DFS), plus in-process -jN vs sequential equivalence on worlds."""
import collections
import itertools
import re
import sys
import threading
import time as _time

from vt import ow
from vt import runrt
from vt import sched as S
from vt import worlds

ID = 'C06'
LEVEL = 'model_checking'
RULE = ('(a) schedules: the unmodified resume_tests + spawn_layer_in_subprocess '
        'run on real threads under a baton scheduler with k virtual layer '
        'subprocesses (scripted writes to finite pipes, close, exit; optional '
        '"wait until layer X was started" dependencies); every interleaving of '
        'parent poll loop, worker threads, stderr reader threads and child '
        'steps up to the preemption bound is explored by stateful DFS with '
        'prefix replay, for N in 1..k+1 and the deferred / immediate / '
        'keep-alive collectors; invariants at every state (live children <= N, '
        'printed bytes are a prefix of the sequential block sequence) and at '
        'every terminal state (output == sequential reference, ran / failure / '
        'error multisets == sum of the child reports, no deadlock); with -x: '
        'nothing is started once the parent began a poll iteration with a '
        'failure or error on record, the started layers are a prefix of the '
        'layer order reaching the first bad layer (exactly, for -j1), and the '
        'terminal state equals the sequential run of the started layers. (b) '
        'worlds: -j1..-j4 runs of outcome worlds against the sequential run. '
        'non-trivial = a configuration with >=2 children')
ASSUMPTIONS = [
    'scheduling points: Thread.start/join, Popen, readline, stderr read, child.kill, time.sleep; code between two points runs atomically (CPython switches elsewhere too, but all shared-state operations in between are single appends / attribute stores)',
    'a polling parent is treated as blocked only when a whole poll iteration left the canonical state unchanged',
    'virtual children are bound to real child processes by the byte-level conformance cases of C07',
]
BOUND = {
    'quick': 'k=2 children: preemption bound 2 (1 with 8-byte pipes), N in 1..3, 3 collectors, 2 pipe capacities, 4 script pairs (two with a spawn failure: last / first layer); k=3: bound 1, N in 1..4, 3 script triples; worlds: 6 shapes x <=1 outcome (10 kinds incl. fd-2 noise, a failing id with FF/LS/NEL/FS/VT and output lines starting with a dot) x -j1..-j4 x -v0..2, and --shuffle under -j2/-j3 against the sequential order x -j1..-j4 x -v0..2; --stop-on-error: 3 pairs (bound 2) and 3 triples (bound 1) with the first bad layer first / middle / unspawnable, N in 1..3, v in {0,2}',
    'thorough': 'k=2: preemption bound 3 (2 with 8-byte pipes); k=3: bound 2; k=4: bound 1, N in 2..5; worlds with <=2 outcomes',
}
CHUNK = 1
NPROC = 16
EXTRA_COVERAGE = {
    # every explored schedule *is* an execution of the unmodified
    # implementation (there is no separate model whose traces would need
    # replaying); the number counts those executions
    'traces_validated_against_impl': lambda agg: agg.evals,
    'explanation': 'states = canonical (frames + pipes + results + printed bytes) '
                   'states of the real resume_tests under the baton scheduler; '
                   'transitions = (state, actor) pairs taken; partial-order '
                   'reduction: child and stderr-reader steps are taken eagerly',
}

REPORT_A = [('err', b'3 0 0\n')]
REPORT_B = [('err', b'2 1 1\n'), ('err', b'failB (m.T.failB)\nerrB (m.T.errB)\n')]
REPORT_C = [('err', b'1 1 0\nfailC (m.T.failC)\n')]


def _one_cpu_filter(case):
    return case[0] in ('worlds', 'shuffle', 'bigworld') and (case[0] != 'worlds' or case[1] in ('A2B1i', 'U1A2'))


ENV_PASSES = [{'name': 'one usable CPU', 'argv': [], 'env': {'VT_ONE_CPU': '1', 'VT_NPROC': '2'}, 'filter': _one_cpu_filter}]


def script(tag, report, dots=True, tail=False, wait=None):
    s = []
    if wait:
        s.append(('wait_started', wait))
    s.append(('out', b'Running %s tests:\n' % tag))
    if dots:
        s.append(('out', b'..\n'))
    s.append(('out', b'  Ran %s.\n' % tag))
    if tail:
        s.append(('out', b'tail-%s-no-newline' % tag))
    s.append(('close_out', None))
    s += report
    s.append(('exit', None))
    return s


def configs(tier):
    out = []
    pairs = [
        {'La': script(b'La', REPORT_A, tail=True), 'Lb': script(b'Lb', REPORT_B)},
        {'La': script(b'La', REPORT_B, dots=False), 'Lb': script(b'Lb', REPORT_A, tail=True)},
        {'La': script(b'La', REPORT_C), 'Lb': 'oserror'},
        {'La': 'oserror', 'Lb': script(b'Lb', REPORT_C, tail=True)},
    ]
    b2 = 2 if tier == 'quick' else 3
    for pi, sc in enumerate(pairs):
        for N in (1, 2, 3):
            for v in (0, 2):
                for cap in (8, 64):
                    if pi >= 2 and cap == 8:
                        continue
                    out.append({'k': 2, 'scripts': sc, 'N': N, 'v': v, 'cap': cap,
                                'bound': b2 if cap == 64 else b2 - 1, 'id': 'k2p%d' % pi})
    # three children; dependencies that need the parent to refill a free slot
    b3 = 1 if tier == 'quick' else 2
    trip = [
        {'La': script(b'La', REPORT_A), 'Lb': script(b'Lb', REPORT_C, dots=False), 'Lc': script(b'Lc', REPORT_A)},
        # La only proceeds once Lc has been started; Lb finishes at once
        {'La': script(b'La', REPORT_A, wait='Lc'), 'Lb': script(b'Lb', REPORT_A, dots=False), 'Lc': script(b'Lc', REPORT_C, dots=False)},
        # the middle layer cannot be spawned
        {'La': script(b'La', REPORT_A, dots=False), 'Lb': 'oserror', 'Lc': script(b'Lc', REPORT_C)},
    ]
    for ti, sc in enumerate(trip):
        for N in (1, 2, 3, 4):
            if ti == 1 and N < 2:
                continue          # the dependency needs two children alive
            for v in (0, 2):
                b = b3
                out.append({'k': 3, 'scripts': sc, 'N': N, 'v': v, 'cap': 64, 'bound': b, 'id': 'k3t%d' % ti})
    quad = {'La': script(b'La', REPORT_A, wait='Ld'), 'Lb': script(b'Lb', REPORT_C, dots=False),
            'Lc': script(b'Lc', REPORT_A, dots=False), 'Ld': script(b'Ld', REPORT_B)}
    if tier == 'thorough':
        for N in (2, 3, 4, 5):
            for v in (0, 2):
                out.append({'k': 4, 'scripts': quad, 'N': N, 'v': v, 'cap': 64, 'bound': 1, 'id': 'k4'})
    # --stop-on-error: which layers get started now depends on the schedule.
    # Whatever it is, it must be a prefix of the layer order, nothing may be
    # started once the parent began a poll iteration with a failure / error on
    # record, and what was started must be reported completely.
    xpairs = [
        {'La': script(b'La', REPORT_C), 'Lb': script(b'Lb', REPORT_A, tail=True)},
        {'La': script(b'La', REPORT_A, dots=False), 'Lb': script(b'Lb', REPORT_B)},
        {'La': 'oserror', 'Lb': script(b'Lb', REPORT_A)},
    ]
    for pi, sc in enumerate(xpairs):
        for N in (1, 2, 3):
            for v in (0, 2):
                out.append({'k': 2, 'scripts': sc, 'N': N, 'v': v, 'cap': 64, 'bound': b2,
                            'id': 'x2p%d' % pi, 'x': True})
    xtrip = [
        {'La': script(b'La', REPORT_A), 'Lb': script(b'Lb', REPORT_C, dots=False), 'Lc': script(b'Lc', REPORT_A)},
        # La (good) only proceeds once the failing Lb has been started
        {'La': script(b'La', REPORT_A, wait='Lb'), 'Lb': script(b'Lb', REPORT_B, dots=False), 'Lc': script(b'Lc', REPORT_A, dots=False)},
        {'La': script(b'La', REPORT_C, dots=False), 'Lb': 'oserror', 'Lc': script(b'Lc', REPORT_A)},
        # the middle child sends no report / half a report: that is an error
        # on record like any other
        {'La': script(b'La', REPORT_A, dots=False), 'Lb': script(b'Lb', [('err', b'Fatal Python error\n')]), 'Lc': script(b'Lc', REPORT_A)},
        {'La': script(b'La', REPORT_A, dots=False), 'Lb': script(b'Lb', [('err', b'2 1 1\n'), ('err', b'failB (m.T.failB)\n')], dots=False), 'Lc': script(b'Lc', REPORT_A)},
    ]
    for ti, sc in enumerate(xtrip):
        for N in (1, 2, 3):
            if ti == 1 and N < 2:
                continue
            for v in (0, 2):
                out.append({'k': 3, 'scripts': sc, 'N': N, 'v': v, 'cap': 64, 'bound': b3,
                            'id': 'x3t%d' % ti, 'x': True})
    if tier == 'quick':
        # progress ("up to N layers do make progress at the same time"): the
        # head layer only proceeds once the 2N-th layer has been started, i.e.
        # the parent must keep refilling freed slots while N results of layers
        # that finished early are waiting behind the head layer's output
        for v in (0, 2):
            out.append({'k': 4, 'scripts': quad, 'N': 2, 'v': v, 'cap': 64, 'bound': 1, 'id': 'k4'})
    # children whose report is cut short / missing, under every interleaving
    # (C07's fault alphabet runs with inline threads; here the schedules vary)
    CUT = [('err', b'2 1 1\n'), ('err', b'failB (m.T.failB)\n')]
    NONE = [('err', b'some text but no report\n')]
    fpairs = [
        {'La': script(b'La', CUT), 'Lb': script(b'Lb', REPORT_B, dots=False)},
        {'La': script(b'La', REPORT_C, tail=True), 'Lb': script(b'Lb', NONE)},
        {'La': script(b'La', []), 'Lb': script(b'Lb', CUT, dots=False)},
    ]
    for pi, sc in enumerate(fpairs):
        for N in (1, 2):
            for v in (0, 2):
                out.append({'k': 2, 'scripts': sc, 'N': N, 'v': v, 'cap': 64, 'bound': b2, 'id': 'f2p%d' % pi})
    return out


def cases(tier, seed):
    for i, c in enumerate(configs(tier)):
        yield ['sched', i, tier]
    # (c) real processes, every completion order forced with barrier files
    for perm in itertools.permutations('ABC'):
        for N in ((3,) if tier == 'quick' else (3, 4)):
            for v in (0, 2):
                yield ['realorder', list(perm), [N, v]]
    for N in (1, 2):
        yield ['realorder', ['A', 'B', 'C'], [N, 0]]
    # a relative search path and a test module that changes the working
    # directory at import (shared with C03): -j2 must find what the
    # sequential run finds
    yield ['cwdimport', None, None]
    # standard streams that cannot encode what a test prints (ASCII, latin-1):
    # the test errors in the sequential run, so it errors in a child as well
    for enc in ('ascii', 'latin-1'):
        for N in (2, 3):
            yield ['ioenc', enc, [N, 'out']]
        yield ['ioenc', enc, [2, 'err']]
    # worlds that are not small: many layers, -j larger than their number
    yield ['bigworld', 12, 6, [2, 5, 20]]
    yield ['bigworld', 3, 60, [2, 7]]
    # a layer whose output is thousands of lines long, as last / first / only
    # long layer
    for pos in (0, 1, 2):
        yield ['longoutput', pos, 4000]
    # layer names that are not plain identifiers, in children (shared with C03)
    for pair in (['a.b', 'a_b'], ['x[y]', 'p+q'], ['a|b', 'ab'], ['vtw.tests:DB', 'xvtw.tests:DB']):
        for mode in ('j2', 'j3_layer'):
            yield ['names', pair, mode]
    # --shuffle: children must use the order of the sequential run
    for sd in range(8 if tier == 'quick' else 64):
        yield ['shuffle', sd, None]
    # (b) worlds
    K = 1 if tier == 'quick' else 2
    menu = ['fail', 'error', 'uxs', 'sub:1,1,0', 'skip_body', 'body+teardown',
            # a failing test in a process whose real stderr also carries noise
            {'s': 'fail', 'w': [['fd2', 'some noise on fd 2\n', False]]},
            {'s': 'body+teardown', 'w': [['fd2', 'warning: x\nwarning: y\n', False]]},
            # failing ids with characters str.splitlines() treats as line
            # breaks but the report protocol does not
            {'s': 'sub:1,1,0', 'subm': 'page one\x0cpage two\u2028three\x85four\x1cfive\x0bsix'},
            # output lines that begin like the keep-alive dot lines of a child
            {'s': 'pass', 'w': [['o', '.TOKhidden file\n... TOKellipsis ok\n./TOKconfigure\n.\n', False]]}]
    for shape in ow.SHAPES:
        nslots = len(ow.SHAPES[shape][1])
        block = []
        for sc in ow.placements(nslots, menu, K):
            block.append(sc)
            if len(block) == 16:
                yield ['worlds', shape, block]
                block = []
        if block:
            yield ['worlds', shape, block]


def setup_worker():
    runrt._mods()
    global R
    import zope.testrunner.runner as R
    S._RUNNER_FILE = R.__file__


BANNER_RE = re.compile(rb'\n\*{70}\n.*?\n\*{70}\n\n', re.S)
NOISE_RE = re.compile(rb'(?:\[Parallel tests running in [^\n]*:\n  |\.+| LAYER FINISHED|\]\n)*')


def strip_keepalive(printed, blocks):
    """Keep-alive marks ('[Parallel tests running in X:', dots, ' LAYER
    FINISHED', ']') may appear between the per-layer blocks, never inside one.
    Returns the printed bytes with the marks *between blocks* removed (so the
    result can be compared with the sequential output); marks inside a block
    stay and make the comparison fail."""
    out = b''
    pos = 0
    for b in blocks:
        pos = NOISE_RE.match(printed, pos).end()
        rest = printed[pos:]
        if rest.startswith(b):
            out += b
            pos += len(b)
        else:
            out += rest          # a partial block (prefix) or a mismatch
            return out
    pos = NOISE_RE.match(printed, pos).end()
    return out + printed[pos:]


def reference(cfg, only=None):
    """(sequential output bytes, ran, failures Counter, errors Counter,
    layers that cannot report); only = the layers that were started (-x)"""
    N, v = cfg['N'], cfg['v']
    out = b''
    ran = 0
    blocks = []
    fails = collections.Counter()
    errs = collections.Counter()
    for layer in sorted(cfg['scripts']):
        if only is not None and layer not in only:
            continue
        sc = cfg['scripts'][layer]
        if sc == 'oserror':
            errs['subprocess for %s' % layer] += 1
            continue
        lines = b''.join(a for op, a in sc if op == 'out')
        rep = b''.join(a for op, a in sc if op == 'err').splitlines()
        blk = b''
        if N == 1:
            blk = lines
        else:
            for ln in lines.splitlines(True):
                if not re.match(rb'\.+(\r\n?|\n)', ln):
                    blk += ln
        out += blk
        blocks.append(blk)
        while rep:
            try:
                r, nf, ne = map(int, rep[0].split())
                break
            except ValueError:
                rep = rep[1:]     # text in front of the report
        if not rep:
            # a child that sent no report at all
            errs['subprocess for %s' % layer] += 1
            continue
        if len(rep) - 1 < nf + ne:
            # a report cut short: one error for the layer, nothing else
            errs['subprocess for %s' % layer] += 1
            continue
        ran += r
        for x in rep[1:1 + nf]:
            fails[x.decode()] += 1
        for x in rep[1 + nf:1 + nf + ne]:
            errs[x.decode()] += 1
    return out, ran, fails, errs, blocks


class Execution:
    """One run of the real resume_tests under a fresh scheduler."""

    def __init__(self, cfg):
        self.cfg = cfg
        self.s = S.Sched(cfg['scripts'], cfg['cap'])
        self.failures = []
        self.errors = []
        self.ret = None
        self.out = runrt.Capture()

    def start(self):
        s = self.s
        cfg = self.cfg
        from zope.testrunner.options import get_options
        argv = ['vt', '-j%d' % cfg['N']] + (['-' + 'v' * cfg['v']] if cfg['v'] else [])
        if cfg.get('x'):
            argv.append('-x')
        saved_stdout = sys.stdout
        sys.stdout = self.out          # get_options builds the formatter
        try:
            options = get_options(argv, [])
        finally:
            sys.stdout = saved_stdout
        options.testrunner_defaults = []
        options.resume_layer = None
        options.resume_number = None
        self.options = options
        ts, ss, tm = s.make_shims()
        self.saved = (R.threading, R.subprocess, R.time,
                      R.DeferredSubprocessResult, R.ImmediateSubprocessResult,
                      R.KeepaliveSubprocessResult, sys.stdout, sys.stderr)
        R.threading, R.subprocess, R.time = ts, ss, tm
        results = s.results

        def reg(cls):
            class Reg(cls):
                def __init__(self, *a, **k):
                    super().__init__(*a, **k)
                    results.append(self)
            Reg.__name__ = cls.__name__
            return Reg
        R.DeferredSubprocessResult = reg(self.saved[3])
        R.ImmediateSubprocessResult = reg(self.saved[4])
        R.KeepaliveSubprocessResult = reg(self.saved[5])
        sys.stdout = self.out
        sys.stderr = self.out
        layers = [(name, None, None) for name in sorted(cfg['scripts'])]

        def root():
            s.tls.actor = self.root
            self.ret = R.resume_tests(['vt-script'], options, [], layers,
                                      self.failures, self.errors, [], None)
        self.root = S.TActor(s, 'parent', root, ())
        s.actors.append(self.root)
        self.root.started = True
        self.root.thread.start()
        s.cur = self.root

    def finish(self):
        (R.threading, R.subprocess, R.time, R.DeferredSubprocessResult,
         R.ImmediateSubprocessResult, R.KeepaliveSubprocessResult,
         sys.stdout, sys.stderr) = self.saved

    def extra_state(self):
        q = ()
        for r in self.s.results[:1]:
            if r.queue is not None:
                q = tuple(r.queue.queue)
        return (tuple(self.failures), tuple(map(str, self.errors)), self.out.value(), q,
                self.s.cur.name if self.s.cur else None)


def explore(cfg, collect):
    """Stateful DFS with prefix replay.  Returns dict of stats + violations."""
    bound = cfg['bound']
    ref_out, ref_ran, ref_f, ref_e, ref_blocks = reference(cfg)
    N = cfg['N']
    xmode = bool(cfg.get('x'))
    layer_names = sorted(cfg['scripts'])

    def _bad(sc):
        if sc == 'oserror':
            return True
        rep = b''.join(a for op, a in sc if op == 'err').splitlines()
        try:
            r, nf, ne = map(int, rep[0].split())
        except (ValueError, IndexError):
            return True               # no report
        return nf + ne > 0
    first_bad = (min([i for i, n in enumerate(layer_names) if _bad(cfg['scripts'][n])] or [len(layer_names) - 1])
                 if xmode else None)
    visited = {}
    transitions = set()
    stack = [[]]
    nexec = 0
    terminals = collections.Counter()
    viol = []
    maxdepth = 0
    sample = None
    interleaved = 0
    nsteps_eager = [0]
    nslow = [0]
    finish_orders = set()
    xstarted = set()

    def V(clause, detail, choices):
        if len(viol) < 10:
            viol.append({'clause': clause, 'sig': {'cfg': cfg['id'], 'N': N, 'v': cfg['v']},
                         'detail': '%s\nconfig=%s\nschedule=%s' % (detail, {k: v for k, v in cfg.items() if k != 'scripts'}, choices),
                         'case_extra': list(choices)})
    while stack:
        prefix = stack.pop()
        ex = Execution(cfg)
        ex.start()
        s = ex.s
        nexec += 1
        choices = []
        names = []
        cost = 0
        step = 0
        last_sleep_state = {}
        pruned = False
        fin = []
        eager_here = 0
        armed = None
        t_exec = _time.time()
        try:
            # the root thread is parked before its first instruction; give it
            # the baton once so that it reaches its first scheduling point
            s.cur.step()
            while True:
                step += 1
                if step > s.horizon:
                    V('horizon_exceeded', 'no termination within %d steps (livelock?)' % s.horizon, names)
                    break
                acts = s.actors
                # partial-order reduction: the steps of a virtual child and of
                # a stderr reader thread only touch their own pipe / buffer,
                # can only *enable* other actors and are invisible to every
                # invariant checked here -> they commute with every other
                # enabled transition and are taken eagerly, in a fixed order,
                # without branching (a delayed child is indistinguishable,
                # for the parent, from a worker thread that is not scheduled)
                while True:
                    eager = [a for a in acts if a.enabled() and
                             (isinstance(a, S.Child) or a.name.startswith('reader'))]
                    if not eager:
                        break
                    eager[0].step()
                    nsteps_eager[0] += 1
                    eager_here += 1
                    if eager_here > 200000:       # per execution
                        raise RuntimeError('eager steps do not terminate')
                en = [a for a in acts if a.enabled()]
                thr_alive = [a for a in acts if isinstance(a, S.TActor) and not a.done]
                st = S.h(s.state(ex.extra_state()))
                # ---- invariants at every state
                if s.live_children() > N:
                    V('more_than_N_children_alive', '%d children alive with -j%d' % (s.live_children(), N), names)
                    break
                printed = ex.out.value()
                # an error banner (spawn failure) is legitimate output of a
                # worker thread; everything else must be the block sequence
                nob = BANNER_RE.sub(b'', printed)
                core = strip_keepalive(nob, ref_blocks) if cfg['v'] > 1 and N > 1 else nob
                if not ref_out.startswith(core):
                    V('output_not_in_sequential_order', 'printed so far %r is not a prefix of the sequential output %r' % (printed, ref_out), names)
                    break
                if xmode:
                    started = [layer_names[int(a.name[6:]) - 1] for a in acts
                               if isinstance(a, S.TActor) and a.name.startswith('spawn_')]
                    if armed is not None and started != armed:
                        V('layer_started_after_a_failure_was_on_record',
                          'with -x the parent began a poll iteration with failures=%s errors=%s on record and layers %s started; now %s are started' % (ex.failures, ex.errors, armed, started), names)
                        break
                for a in acts:
                    if isinstance(a, S.TActor) and a.done and a.name.startswith('spawn') and a.name not in fin:
                        fin.append(a.name)
                        if len(fin) == cfg['k'] - sum(1 for x in cfg['scripts'].values() if x == 'oserror'):
                            finish_orders.add(tuple(fin))
                if not thr_alive:
                    # terminal
                    finish_orders.add(tuple(fin))
                    f = collections.Counter(x[0] for x in ex.failures)
                    e = collections.Counter(x[0] for x in ex.errors)
                    t_out, t_ran, t_f, t_e = ref_out, ref_ran, ref_f, ref_e
                    if xmode:
                        # the reference is the sequential run of the layers
                        # that were started
                        t_out, t_ran, t_f, t_e, _ = reference(cfg, only=set(started))
                        if started != layer_names[:len(started)]:
                            V('started_layers_not_a_prefix_of_the_layer_order', 'started %s of %s' % (started, layer_names), names)
                        if len(started) < first_bad + 1:
                            V('stopped_before_the_first_bad_layer', 'started only %s; the first layer with a failure or error is %s' % (started, layer_names[first_bad]), names)
                        if N == 1 and len(started) > first_bad + 1:
                            V('layer_started_after_the_failing_one_in_a_sequential_run', 'started %s; the first layer with a failure or error is %s' % (started, layer_names[first_bad]), names)
                    term = (core == t_out, ex.ret, tuple(sorted(f.items())), tuple(sorted(e.items())))
                    if xmode:
                        term = (core == t_out, ex.ret == t_ran, f == t_f, e == t_e)
                        xstarted.add(tuple(started))
                    terminals[term] += 1
                    if core != t_out:
                        V('final_output_differs', 'printed %r, sequential reference %r' % (printed, t_out), names)
                    if ex.ret != t_ran or f != t_f or e != t_e:
                        V('results_differ_from_sequential', 'ran=%s failures=%s errors=%s; children reported ran=%s failures=%s errors=%s' % (ex.ret, dict(f), dict(e), t_ran, dict(t_f), dict(t_e)), names)
                    if s.thread_deaths:
                        V('thread_died', str(s.thread_deaths), names)
                    if s.live_children() != 0:
                        V('child_not_reaped', '%d children never killed/reaped' % s.live_children(), names)
                    if sample is None:
                        sample = list(names)
                    break
                if not en:
                    V('deadlock', 'no actor enabled; threads parked at %s; children %s' % ([(a.name, a.kind) for a in thr_alive], [c.summary() for c in s.children]), names)
                    break
                # a parent that only polls: blocked if a whole iteration
                # changed nothing
                only_sleepers = all(isinstance(a, S.TActor) and a.kind == 'sleep' for a in en)
                if only_sleepers:
                    a = en[0]
                    if last_sleep_state.get(a.name) == st:
                        V('hang', 'only the polling parent can run and a whole poll iteration changed nothing; threads %s children %s' % ([(x.name, x.kind) for x in thr_alive], [c.summary() for c in s.children]), names)
                        break
                for a in en:
                    if isinstance(a, S.TActor) and a.kind == 'sleep':
                        last_sleep_state.setdefault(a.name, None)
                # ---- canonical order: running thread first, then creation order
                cur = s.cur
                order = ([cur] if cur in en else []) + [a for a in en if a is not cur]
                i = len(choices)
                if i < len(prefix):
                    pick = prefix[i]
                    if pick >= len(order):
                        raise RuntimeError('divergence while replaying prefix %s at %d (enabled %d)' % (prefix, i, len(order)))
                else:
                    seen = visited.get(st)
                    if seen is not None and seen <= cost:
                        pruned = True
                        break
                    visited[st] = cost
                    pick = 0
                    for alt in range(1, len(order)):
                        c2 = cost + pre_cost(cur, order[alt], en)
                        if c2 <= bound:
                            stack.append(choices + [alt])
                chosen = order[pick]
                if (xmode and armed is None and chosen is ex.root and chosen.kind == 'sleep'
                        and (ex.failures or ex.errors)):
                    # the parent is about to begin a poll iteration with a
                    # failure on record: from here on nothing may be started
                    armed = list(started)
                cost += pre_cost(cur, chosen, en)
                choices.append(pick)
                names.append(getattr(chosen, 'name', None) or 'C%d' % chosen.idx)
                transitions.add((st, names[-1]))
                if isinstance(chosen, S.TActor):
                    if chosen.kind == 'sleep':
                        last_sleep_state[chosen.name] = st
                    s.cur = chosen
                    chosen.step()
                else:
                    chosen.step()
                if len({n for n in names[-6:] if n.startswith('C')}) > 1:
                    interleaved += 1
            maxdepth = max(maxdepth, len(choices))
        except S.StepTimeout as e:
            V('busy_loop_without_scheduling_point', 'thread %s was running for %.0f s of real time without reaching a sleep, join, pipe or spawn operation (the poll loop never yields)' % (e, S.STEP_TIMEOUT), names)
            del stack[:]
        else:
            if _time.time() - t_exec > 1.0:
                nslow[0] += 1
            if nslow[0] >= 3:
                # every blocking operation of the runner is owned by the
                # scheduler; an execution of a few dozen steps that takes this
                # long in real time waits on something else (a timed queue get,
                # a real sleep): the parent does not get back to its scheduling
                V('parent_blocks_in_real_time', 'three executions took more than 1 s of real time each (typically 0.01 s; the last one %.1f s)' % (_time.time() - t_exec), names)
                del stack[:]          # every further execution would be as slow
        finally:
            s.abort()
            ex.finish()
    return {'executions': nexec, 'states': set(visited), 'transitions': transitions,
            'terminals': terminals, 'violations': viol, 'maxdepth': maxdepth,
            'sample': sample, 'interleaved': interleaved,
            'finish_orders': finish_orders, 'xstarted': xstarted}


def pre_cost(cur, chosen, enabled):
    if not isinstance(chosen, S.TActor):
        return 0                      # child steps are the environment's
    if cur is None or chosen is cur:
        return 0
    if cur in enabled and cur.kind not in ('sleep',):
        return 1                      # switching away from a runnable thread
    return 0


def compare_with_sequential(spec, label, Ns=(1, 2, 3, 4), vss=([], ['-v'], ['-vv'])):
    viol = []
    evals = 0
    base = runrt.run_world(spec, [], probe=False)
    evals += 1
    bt = ow.Truth(spec, base)
    for N in Ns:
        for v in vss:
            r = runrt.run_world(spec, ['-j%d' % N] + v, probe=False)
            evals += 1
            t = ow.Truth(spec, r)
            sig = {'N': min(N, 9), 'v': len(v)}
            d = '%s -j%d %s: ' % (label, N, v)
            if r.escaped:
                viol.append(('run_aborted', sig, d + str(r.escaped_tb)))
                continue
            if t.runs != bt.runs:
                viol.append(('executed_tests_differ', sig, d + '%s vs sequential %s' % (dict(t.runs), dict(bt.runs))))
            if (r.failed, r.ran, sorted(r.failures), sorted(r.errors)) != (base.failed, base.ran, sorted(base.failures), sorted(base.errors)):
                viol.append(('verdict_or_lists_differ', sig, d + 'failed/ran/failures/errors %s vs sequential %s' % ((r.failed, r.ran, sorted(r.failures), sorted(r.errors)), (base.failed, base.ran, sorted(base.failures), sorted(base.errors)))))
            if r.live_max > N:
                viol.append(('more_than_N_children_alive', sig, d + str(r.live_max)))
            hs = runrt.HDR_RE.findall(r.text)
            hb = runrt.HDR_RE.findall(base.text)
            if [x for x in hs if x != '.EmptyLayer'] != hb:
                viol.append(('layer_blocks_out_of_order', sig, d + '%s vs %s' % (hs, hb)))
            # what the tests printed stays inside its layer's block
            tb, tj = _tokens_by_section(base.text), _tokens_by_section(r.text)
            if tb != tj:
                viol.append(('test_output_not_in_its_layer_block', sig, d + 'tokens per block %s, sequential %s' % (tj, tb)))
    return evals, viol


def run_worlds(shape, block):
    viol = []
    evals = 0
    for sc in block:
        spec = ow.build(shape, sc)
        e, vs = compare_with_sequential(spec, 'shape %s scripts %s' % (shape, sc))
        evals += e
        viol += vs
        # --shuffle: every child must run its layer in the order the
        # sequential run uses (same seed)
        sh = ['--shuffle', '--shuffle-seed', '5']
        b2 = runrt.run_world(spec, sh, probe=False)
        evals += 1
        for N in (2, 3):
            r = runrt.run_world(spec, ['-j%d' % N] + sh, probe=False)
            evals += 1
            ob, oj = _order_by_layer(spec, b2), _order_by_layer(spec, r)
            if ob != oj:
                viol.append(('shuffled_order_differs_from_sequential', {'N': N, 'v': 0}, 'shape %s scripts %s -j%d %s: per-layer execution order %s, sequential %s' % (shape, sc, N, sh, oj, ob)))
            if (r.failed, r.ran, sorted(r.failures), sorted(r.errors)) != (b2.failed, b2.ran, sorted(b2.failures), sorted(b2.errors)):
                viol.append(('verdict_or_lists_differ', {'N': N, 'v': 0}, 'shape %s scripts %s -j%d %s' % (shape, sc, N, sh)))
    return evals, viol


TOK_RE = re.compile(r'TOK\w+')


def _tokens_by_section(text):
    d = {}
    for name, body in runrt.parse_sections(text):
        if name == '.EmptyLayer':
            continue
        d[name] = sorted(TOK_RE.findall(body))
    return d


def _order_by_layer(spec, res):
    lay = {t['n']: t.get('l') for t in spec['tests']}
    d = {}
    for ev in res.trace:
        if ev[1] == 't' and ev[3] == 'body':
            d.setdefault(lay[ev[2]], []).append(ev[2])
    return d


def run_shuffle(sd):
    layers = [{'n': n, 'b': [], 'k': 'c', 'h': list(worlds.HOOKS_SD)} for n in 'ABC']
    tests = [{'n': 'u%d' % i, 'l': None, 's': 'pass'} for i in range(3)]
    for n in 'ABC':
        for i in range(4):
            tests.append({'n': '%s%d' % (n.lower(), i), 'l': n, 's': 'fail' if (n, i) == ('B', 2) else 'pass'})
    spec = {'layers': layers, 'tests': tests}
    sh = ['--shuffle', '--shuffle-seed', str(sd)]
    base = runrt.run_world(spec, sh, probe=False)
    ob = _order_by_layer(spec, base)
    viol = []
    evals = 1
    for argv in (['-j2'], ['-j3'], ['-j4', '-vv']):
        r = runrt.run_world(spec, argv + sh, probe=False)
        evals += 1
        oj = _order_by_layer(spec, r)
        sig = {'N': int(argv[0][2:]), 'v': 0, 'cfg': 'shuffle'}
        if oj != ob:
            viol.append(('shuffled_order_differs_from_sequential', sig, 'seed %d %s: per-layer execution order %s, sequential %s' % (sd, argv, oj, ob)))
        if (r.failed, r.ran, sorted(r.failures), sorted(r.errors)) != (base.failed, base.ran, sorted(base.failures), sorted(base.errors)):
            viol.append(('verdict_or_lists_differ', sig, 'seed %d %s' % (sd, argv)))
    return evals, viol


def real_order_spec(perm):
    """Three independent layers; the layer perm[i] only finishes after
    perm[i-1] has finished (barrier files), whatever the start order."""
    layers = [{'n': L, 'b': [], 'k': 'c', 'h': list(worlds.HOOKS_SD)} for L in 'ABC']
    tests = []
    for L in 'ABC':
        i = perm.index(L)
        acts = []
        if i > 0:
            acts.append(['wait', 'done_' + perm[i - 1], 30])
        tests.append({'n': 'p' + L, 'l': L, 's': 'pass', 'acts': acts,
                      'w': [['o', 'TOKEN-%s-1\n' % L, False]]})
        tests.append({'n': 'q' + L, 'l': L, 's': 'fail' if L == 'B' else 'pass',
                      'acts': [['touch', 'done_' + L]],
                      'w': [['o', 'TOKEN-%s-2\n' % L, False]]})
    return {'layers': layers, 'tests': tests}


def run_realorder(perm, N, v):
    spec = real_order_spec(perm)
    argv = ['-j%d' % N] + (['-' + 'v' * v] if v else [])
    seq = runrt.run_cli(spec, ['-' + 'v' * v] if v else [], timeout=120, barrier=False)
    par = runrt.run_cli(spec, argv, timeout=120)
    viol = []
    sig = {'part': 'realorder', 'N': N, 'v': v}
    d = 'real processes, forced completion order %s, %s: ' % (''.join(perm), argv)
    if par.rc == 'timeout' or seq.rc == 'timeout':
        viol.append(('parent_hangs', sig, d + par.text[-600:]))
        return 2, viol
    if any(ev[1] == 'barrier_timeout' for ev in par.trace):
        viol.append(('forced_order_not_reached', sig, d + 'a barrier timed out: the children did not run concurrently enough'))
    # completion order really was the forced one
    ends = [ev[2][1:] for ev in par.trace if ev[1] == 't' and ev[3] == 'body' and ev[2].startswith('q')]
    if N >= 3 and ends != list(perm):
        viol.append(('harness_order_not_forced', sig, d + 'tests finished in order %s' % ends))
    secs_p = runrt.parse_sections(par.text)
    secs_s = runrt.parse_sections(seq.text)
    names_p = [n for n, _ in secs_p if n != '.EmptyLayer']
    names_s = [n for n, _ in secs_s]
    if names_p != names_s:
        viol.append(('layer_blocks_out_of_order', sig, d + '%s vs sequential %s' % (names_p, names_s)))
    for name, body in secs_p:
        L = name.rsplit('.', 1)[-1]
        for other in 'ABC':
            if other != L and ('TOKEN-%s-' % other) in body:
                viol.append(('output_of_other_layer_inside_block', sig, d + 'token of %s inside the block of %s' % (other, name)))
    if par.rc != seq.rc:
        viol.append(('verdict_differs', sig, d + 'exit %r vs sequential %r' % (par.rc, seq.rc)))
    tp, ts = runrt.TOTAL_RE.search(par.text), runrt.TOTAL_RE.search(seq.text)
    if not tp or not ts or tp.groups() != ts.groups():
        viol.append(('totals_differ', sig, d + '%s vs %s' % (tp and tp.group(0), ts and ts.group(0))))
    ex_p = sorted(ev[2] for ev in par.trace if ev[1] == 't' and ev[3] == 'body')
    ex_s = sorted(ev[2] for ev in seq.trace if ev[1] == 't' and ev[3] == 'body')
    if ex_p != ex_s:
        viol.append(('executed_tests_differ', sig, d + '%s vs %s' % (ex_p, ex_s)))
    return 2, viol


def run_case(case):
    if case[0] == 'realorder':
        evals, vs = run_realorder(case[1], case[2][0], case[2][1])
        viol = [{'clause': c, 'sig': s, 'detail': d} for c, s, d in vs]
        return {'evals': evals, 'nontrivial': evals, 'violations': viol, 'outcome': 'realorder', 'nogate': True,
                'counters': {'real_process_runs': evals}}
    if case[0] == 'ioenc':
        enc, (N, which) = case[1], case[2]
        layers = [{'n': L, 'b': [], 'k': 'c', 'h': list(worlds.HOOKS_SD)} for L in 'AB']
        tests = [{'n': 'u0', 'l': None, 's': 'pass', 'w': [['o', 'caf\xe9 \u20ac \u4e2d\n', False]]},
                 {'n': 'a0', 'l': 'A', 's': 'pass', 'w': [['o', 'gr\xf6\xdfe \u4e2d\n', False]]},
                 {'n': 'a1', 'l': 'A', 's': 'pass'},
                 {'n': 'b0', 'l': 'B', 's': 'pass', 'w': ([['e', '\u4e2d\u6587\n', False]] if which == 'err' else [])},
                 {'n': 'b1', 'l': 'B', 's': 'fail'}]
        spec = {'layers': layers, 'tests': tests}
        ee = {'PYTHONIOENCODING': enc, 'PYTHONUTF8': '0'}
        seq = runrt.run_cli(spec, ['-v'], timeout=120, extra_env=ee, barrier=False)
        par = runrt.run_cli(spec, ['-v', '-j%d' % N], timeout=120, extra_env=ee, barrier=False)
        viol = []
        sig = {'N': N, 'v': 1, 'cfg': 'ioenc_' + which}
        d = 'real processes, PYTHONIOENCODING=%s, tests printing text the streams cannot encode (%s), -j%d: ' % (enc, 'sys.stdout only' if which == 'out' else 'sys.stdout and sys.stderr', N)
        ts, tp = runrt.TOTAL_RE.search(seq.text), runrt.TOTAL_RE.search(par.text)
        es = runrt.parse_name_list(seq.text, 'Tests with errors:') or []
        ep = runrt.parse_name_list(par.text, 'Tests with errors:') or []
        extra = sorted(set(ep) - set(es))
        if (which == 'err' and seq.rc == par.rc and ts and tp and sorted(set(es) - set(ep)) == []
                and len(extra) == 1 and extra[0].startswith('test_b0 ')
                and int(tp.group(3)) == int(ts.group(3)) + 1 and ts.groups()[:2] == tp.groups()[:2]):
            # exactly the known finding: the stderr-writing test errors in the child only
            viol.append({'clause': 'unencodable_stderr_write_fails_only_in_a_child', 'sig': sig,
                         'detail': d + 'test b0 writes %r to sys.stderr: passes sequentially (stderr: backslashreplace), errors in the layer subprocess (its sys.stderr is its strict sys.stdout): %s vs %s' % ('\u4e2d\u6587', tp.group(0), ts.group(0))})
        else:
            if seq.rc != par.rc:
                viol.append({'clause': 'verdict_differs', 'sig': sig, 'detail': d + 'exit %r, sequential %r' % (par.rc, seq.rc)})
            if not ts or not tp or ts.groups()[:3] != tp.groups()[:3]:
                viol.append({'clause': 'totals_differ', 'sig': sig, 'detail': d + '%s vs sequential %s' % (tp and tp.group(0), ts and ts.group(0))})
            if sorted(es) != sorted(ep):
                viol.append({'clause': 'verdict_or_lists_differ', 'sig': sig, 'detail': d + 'errors %s vs sequential %s' % (ep, es)})
        return {'evals': 2, 'nontrivial': 2, 'violations': viol, 'outcome': 'ioenc', 'nogate': True,
                'counters': {'real_process_runs': 2}}
    if case[0] == 'cwdimport':
        from vt.props import c03
        viol = c03.run_cwd_case('import', 'j2')
        for v in viol:
            v['sig'] = {'N': 2, 'v': 0, 'cfg': 'cwdimport'}
        return {'evals': 1, 'nontrivial': 1, 'violations': viol, 'outcome': 'cwdimport', 'nogate': True,
                'counters': {'real_process_runs': 1}}
    if case[0] == 'longoutput':
        pos, nlines = case[1], case[2]
        layers = [{'n': n, 'b': [], 'k': 'c', 'h': list(worlds.HOOKS_SD)} for n in 'ABC']
        tests = []
        for i, n in enumerate('ABC'):
            w = [['o', ''.join('TOK%s%05d line\n' % (n, k) for k in range(nlines if i == pos else 3)), False]]
            tests.append({'n': 'p' + n, 'l': n, 's': 'pass', 'w': w})
            tests.append({'n': 'q' + n, 'l': n, 's': 'fail' if n == 'B' else 'pass'})
        evals, vs = compare_with_sequential({'layers': layers, 'tests': tests}, 'layer #%d prints %d lines' % (pos, nlines), Ns=(2, 3), vss=([], ['-vv']))
        viol = [{'clause': c, 'sig': sg, 'detail': d[:1500]} for c, sg, d in vs[:10]]
        return {'evals': evals, 'nontrivial': evals, 'violations': viol, 'outcome': 'longoutput'}
    if case[0] == 'bigworld':
        spec = ow.big_spec(nlayers=case[1], ntests=case[2])
        evals, vs = compare_with_sequential(spec, 'big world %dx%d' % (case[1], case[2]), Ns=case[3], vss=([], ['-vv']))
        viol = [{'clause': c, 'sig': sg, 'detail': d[:3000]} for c, sg, d in vs[:10]]
        return {'evals': evals, 'nontrivial': evals, 'violations': viol, 'outcome': 'bigworld'}
    if case[0] == 'names':
        from vt.props import c03
        viol = c03.run_names_case(case[1], case[2])
        for v in viol:
            v['sig'] = {'N': 2 if case[2] == 'j2' else 3, 'v': 0, 'cfg': 'names'}
        return {'evals': 1, 'nontrivial': 1, 'violations': viol, 'outcome': 'names'}
    if case[0] == 'shuffle':
        evals, vs = run_shuffle(case[1])
        viol = [{'clause': c, 'sig': sg, 'detail': d} for c, sg, d in vs]
        return {'evals': evals, 'nontrivial': evals, 'violations': viol, 'outcome': 'shuffle'}
    if case[0] == 'worlds':
        evals, vs = run_worlds(case[1], case[2])
        viol = [{'clause': c, 'sig': s, 'detail': d} for c, s, d in vs[:20]]
        return {'evals': evals, 'nontrivial': evals, 'violations': viol, 'outcome': 'worlds'}
    cfg = configs(case[2])[case[1]]
    r = explore(cfg, True)
    viol = []
    for v in r['violations']:
        v = dict(v)
        v['case'] = case + [v.pop('case_extra')]
        viol.append(v)
    if len(r['terminals']) > 1:
        viol.append({'clause': 'terminal_outcomes_differ', 'sig': {'cfg': cfg['id'], 'N': cfg['N'], 'v': cfg['v']},
                     'detail': 'different schedules end differently: %s' % (dict(r['terminals']),)})
    return {'evals': r['executions'], 'nontrivial': r['executions'] if cfg['k'] >= 2 else 0,
            'violations': viol, 'states': r['states'], 'transitions': {S.h(t) for t in r['transitions']},
            'outcome': (cfg['id'], cfg['N'], cfg['v'], tuple(sorted(map(str, r['terminals'])))[:2]),
            'counters': {'distinct_worker_finish_orders_summed_over_configs': len(r['finish_orders']),
                         'schedule_steps_longest_summed': r['maxdepth'], 'configs': 1,
                         'stop_on_error_configs': int(bool(cfg.get('x'))),
                         'stop_on_error_distinct_started_sets_summed': len(r['xstarted'])},
            'sample': {'config': {k: v for k, v in cfg.items() if k != 'scripts'},
                       'one_complete_schedule': r['sample'], 'executions': r['executions'],
                       'states': len(r['states']), 'max_depth': r['maxdepth'],
                       'worker_finish_orders': sorted(r['finish_orders']),
                       'started_layer_sets_under_stop_on_error': sorted(r['xstarted'])}}
