"""C07 — subprocess result channel: nothing lost, nothing partial trusted, no
hang.  Fault enumeration on the real spawn_layer_in_subprocess (reports
produced by the real SubProcess.report) plus a crash matrix and byte-level
conformance with real child processes."""
import collections
import io
import os
import re
import subprocess
import sys

from vt import env
from vt import ow
from vt import runrt
from vt import worldrt
from vt import worlds

ID = 'C07'
LEVEL = 'fault_enumeration'
RULE = ('(a) channel faults: reports are produced by the real '
        'SubProcess.report() for (ran in {0,1,7,1000}) x failure/error name '
        'lists (lengths 0,1,2 from 15 spellings: ASCII, non-ASCII, 5000 chars, '
        'spaces/parentheses, "3 1 1", embedded LF / CR / CRLF / U+2028 / VT / '
        'FS / NEL, leading+trailing blanks, TAB, empty; one 1000-name report) '
        'and fed to the real spawn_layer_in_subprocess through fake pipes: '
        'complete, truncated at EVERY byte offset, with 9 kinds of noise '
        'before and after, 6 kinds of stdout content, Popen raising OSError, '
        '-v 0/1/2; with a parent stdout that cannot encode the child\'s bytes (ascii, latin-1); 11 worlds (4 with --buffer, 3 with the failing test itself writing) whose tests write 10 kinds of header look-alikes and bulk text through sys.stdout/sys.stderr (text and .buffer, in setUp and body) in resumed and -j children; (b) crash matrix with real processes: the child dies at '
        '{import, layer setUp, test setUp/body/tearDown, layer tearDown, every '
        'str() call on the way to and inside the report} by {_exit(0), '
        '_exit(3), SIGKILL, SIGSEGV, sys.exit(0), sys.exit(3)} under -j2 and as a resumed child; (c) conformance: stdout and '
        'stderr bytes of real child processes equal those of the in-process '
        'child for the same world. non-trivial = every fault case')
ASSUMPTIONS = [
    'noise *inside* a report (another thread writing to fd 2 while the report is printed) is outside the alphabet: no line protocol without framing can detect it',
    'names that cannot be encoded (lone surrogates) only have to arrive as one name, not verbatim',
]
BOUND = {
    'quick': 'every byte offset of every report with <=2 names (and line boundaries + 64 offsets of the 1000-name report); crash matrix 9 points x 6 ways x 2 modes; conformance 6 worlds x 2 modes',
    'thorough': 'every byte offset of the 1000-name report too; noise pairs',
}
CHUNK = 8
MAXTASKS = None

NAMES = ['test_a (m.T.test_a)', 'tëst_ü (m.T.tëst_ü)', 'x' * 5000,
         'name with spaces (and) parens', '3 1 1', 'multi\nline\nid',
         'cr\rid', 'crlf\r\nid', 'ls id', 'vt\x0bid', 'fs\x1cid',
         'nel\x85id', ' lead and trail ', 'tab\tid', '0 0 0',
         # a file name decoded with surrogateescape in a test id
         'caf\udce9.txt (doc)',
         # a name that reads as a header announcing no names; a blank name
         '7 0 0', '   ', '']
NOISE = [b'text\n', b'\n', b'Traceback (most recent call last):\n', b'1 2\n',
         b'1 2 x\n', b'\xff\xfe invalid utf-8\n', b'x' * 200000 + b'\n',
         b'0 0 0\n', b'7 1 0\n',
         # lines that only BEGIN like a header
         b'3 0 0 hits/misses/evictions\n', b'1 2 3 4\n', b'12 0 0\tcache\n', b'5 0 0.5\n',
         # text that does not end in a newline (an atexit hook, a dying thread)
         b'stray text without newline', b'\nException ignored in: <x>']
STDOUTS = [b'', b'..\n.\n', b'y' * (1 << 20) + b'\n', b'\xff\xfe\n',
           b'Running x tests:\n  no newline at end', b'\n\n\n']


def expected_name(n):
    # a line protocol cannot carry line breaks: each of CRLF / CR / LF in a
    # test id arrives as one blank; everything else arrives verbatim (what
    # UTF-8 cannot encode arrives in its backslash-escaped spelling)
    n = n.encode('utf-8', 'backslashreplace').decode('utf-8')
    return re.sub('\r\n|\r|\n', ' ', n.strip())


class FakeTest:
    def __init__(self, s):
        self.s = s

    def __str__(self):
        return self.s


def make_report(ran, fails, errs):
    """Bytes the REAL child writes for these results."""
    from zope.testrunner.process import SubProcess

    class Rn:
        pass
    rn = Rn()
    rn.ran = ran
    rn.failures = [(FakeTest(n), None) for n in fails]
    rn.errors = [(FakeTest(n), None) for n in errs]
    sp = SubProcess.__new__(SubProcess)
    sp.runner = rn
    raw = io.BytesIO()
    sp.original_stderr = io.TextIOWrapper(raw, encoding='utf-8',
                                          errors='backslashreplace',
                                          newline='\n', write_through=True)
    saved = sys.stdout
    sys.stdout = io.StringIO()
    try:
        sp.report()
    finally:
        sys.stdout = saved
    return raw.getvalue()


class _Inline:
    def __init__(self, target=None, args=(), **k):
        self.t, self.a = target, args
        self.daemon = False
        self.exc = None

    def start(self):
        self.t(*self.a)

    def join(self, timeout=None):
        pass

    def is_alive(self):
        return False


def call_spawn(out, err, v, oserror=False, parent_encoding=None, oserrno=24):
    """Run the real spawn_layer_in_subprocess on given child bytes."""
    from zope.testrunner.options import get_options
    state = {'popen': 0, 'kill': 0, 'communicate': 0}

    class P:
        def __init__(self, args, **kw):
            state['popen'] += 1
            if oserror:
                raise OSError(oserrno, os.strerror(oserrno) + ' (injected)')
            self.stdout = io.BytesIO(out)
            self.stderr = io.BytesIO(err)
            self.stdin = None

        def kill(self):
            state['kill'] += 1

        def communicate(self, *a, **k):
            state['communicate'] += 1
            return (b'', b'')

    class SS:
        PIPE = -1
        Popen = P

    class TS:
        Thread = _Inline
    cap = runrt.Capture(*((parent_encoding, 'strict') if parent_encoding else ()))
    saved = (R.subprocess, R.threading, sys.stdout, sys.stderr)
    sys.stdout = sys.stderr = cap
    try:
        options = get_options(['vt', '-j2'] + (['-' + 'v' * v] if v else []), [])
        options.testrunner_defaults = []
        R.subprocess, R.threading = SS, TS
        res = R.DeferredSubprocessResult('vtw.tests.L', None)
        failures, errors = [], []
        exc = None
        try:
            R.spawn_layer_in_subprocess(res, ['vt-script'], options, [],
                                        'vtw.tests.L', None, failures, errors,
                                        [], 1)
        except BaseException as e:
            exc = e
    finally:
        R.subprocess, R.threading, sys.stdout, sys.stderr = saved
    return res, failures, errors, exc, state, cap.value()


def reports(tier):
    out = []
    small = [n for n in NAMES]
    for ran in (0, 1, 7, 1000):
        out.append((ran, [], []))
    for n in small:
        out.append((3, [n], []))
        out.append((3, [], [n]))
        out.append((4, [n], ['test_a (m.T.test_a)']))
        out.append((4, ['test_a (m.T.test_a)'], [n]))
    out.append((5, [NAMES[0], NAMES[1]], [NAMES[3], NAMES[4]]))
    return out


def cases(tier, seed):
    reps = reports(tier)
    for i in worlds.rot(range(len(reps)), seed):
        yield ['complete', i, None]
        yield ['truncate', i, None]
        yield ['noise', i, None]
    yield ['big', None, tier]
    yield ['huge', None, None]
    yield ['latin1', None, None]
    yield ['ascii_parent', None, None]
    for wi in range(len(NOISE_WORLDS)):
        for ni in range(len(TEST_NOISE)):
            yield ['world', wi, ni]
    yield ['stdout', None, None]
    yield ['oserror', None, None]
    for f in XFAULTS:
        for argv in ([], ['-j2'], ['-j3', '-v']):
            yield ['xfault', f, argv]
    # (b) crash matrix
    points = ['import', 'layer_setUp', 'test_setUp', 'test_body', 'test_tearDown',
              'layer_tearDown']
    ways = ['exit0', 'exit3', 'kill', 'segv', 'sysexit0', 'sysexit3', 'rtsig']
    for mode in ('j2', 'resumed'):
        for pt in points:
            for w in ways:
                yield ['crash', [pt, w], mode]
        for k in range(1, 13):
            for w in ('exit0', 'kill'):
                yield ['crash', ['str:%d' % k, w], mode]
    for wi in range(6):
        for mode in ('j2', 'resumed'):
            yield ['conf', wi, mode]


def setup_worker():
    runrt._mods()
    global R
    import zope.testrunner.runner as R


def judge(label, rep, out, err, v, full, complete, viol, sig):
    ran, fails, errs = rep
    res, failures, errors, exc, state, printed = call_spawn(out, err, v)
    d = '%s: report for ran=%d fails=%r errs=%r (%d bytes given of %d)' % (label, ran, [f[:40] for f in fails], [e[:40] for e in errs], len(err), len(full))

    def V(clause, what):
        viol.append((clause, dict(sig), d + ': ' + what))
    if exc is not None:
        V('exception_escaped', repr(exc))
        return
    if not res.done:
        V('done_not_set', '')
    if state['kill'] != 1 or state['communicate'] != 1:
        V('child_not_killed_and_reaped', str(state))
    fn = [f[0] for f in failures]
    en = [e[0] for e in errors]
    if complete:
        if res.num_ran != ran:
            V('ran_lost', 'num_ran=%s' % res.num_ran)
        if fn != [expected_name(n) for n in fails]:
            V('failure_names_wrong', 'recorded %r' % ([x[:60] for x in fn],))
        if en != [expected_name(n) for n in errs]:
            V('error_names_wrong', 'recorded %r' % ([x[:60] for x in en],))
    else:
        if fn:
            V('partial_data_used', 'failure names %r taken from an incomplete report' % ([x[:60] for x in fn],))
        if en != ['subprocess for vtw.tests.L']:
            V('no_single_layer_error', 'errors recorded: %r' % ([x[:60] for x in en],))


def run_case(case):
    kind, a, b = case
    viol = []
    evals = 0
    if kind in ('complete', 'truncate', 'noise'):
        rep = reports('quick')[a]
        full = make_report(*rep)
        nn = len(rep[1]) + len(rep[2])
        sig = {'part': kind, 'names': sorted({worlds_tag(n) for n in rep[1] + rep[2]})}
        if kind == 'complete':
            for v in (0, 1, 2):
                for so in (b'', b'..\nRunning x tests:\n'):
                    judge('complete -v%d' % v, rep, so, full, v, full, True, viol, sig)
                    evals += 1
        elif kind == 'truncate':
            offs = range(len(full)) if len(full) < 3000 else sorted(set(list(range(0, 200)) + list(range(len(full) - 200, len(full))) + [i for i in range(len(full)) if full[i:i + 1] == b'\n'][:50]))
            for off in offs:
                cut = full[:off]
                complete = (nn == 0 and cut + b'\n' == full)
                judge('cut at %d' % off, rep, b'..\n', cut, 1, full, complete, viol, dict(sig, cut=True))
                evals += 1
        else:
            for ni, nz in enumerate(NOISE):
                spoof = ow._triple(nz.strip()) is not None
                s2 = dict(sig, noise=ni)
                if spoof:
                    s2 = {'part': 'noise', 'spoofed_header': True}
                if nz.endswith(b'\n'):
                    # (text without a final newline in front of the header
                    # garbles the header line itself: not a case anyone can win)
                    judge('noise %r before' % nz[:20], rep, b'', nz + full, 1, full, True, viol, s2)
                judge('noise %r after' % nz[:20], rep, b'', full + nz, 1, full, True, viol, dict(sig, noise=ni, after=True))
                judge('noise only %r' % nz[:20], rep, b'', nz, 2, full, False if not spoof else None, viol, dict(s2, only=True)) if not spoof else None
                evals += 3
    elif kind == 'big':
        names = ['test_%04d (m.T.test_%04d)' % (i, i) for i in range(1000)]
        rep = (1000, names[:600], names[600:])
        full = make_report(*rep)
        sig = {'part': 'big'}
        judge('complete big', rep, b'', full, 0, full, True, viol, sig)
        nl = [i + 1 for i in range(len(full)) if full[i:i + 1] == b'\n']
        offs = set(nl[:-1]) | set(range(0, 64)) | set(range(len(full) - 64, len(full)))
        if b == 'thorough':
            offs = set(range(len(full)))
        for off in sorted(offs):
            judge('big cut at %d' % off, rep, b'', full[:off], 0, full, False, viol, dict(sig, cut=True))
            evals += 1
    elif kind == 'huge':
        # a complete report of more than 4 MiB (40 ids of 120 KiB, 3000 ids of 1.5 KiB)
        for names in ([('t%02d_' % i) + 'x' * 120000 for i in range(40)],
                      [('t%04d_' % i) + 'y' * 1500 for i in range(3000)]):
            h = len(names) // 2
            rep = (len(names) + 5, names[:h], names[h:])
            full = make_report(*rep)
            judge('complete report of %d bytes' % len(full), rep, b'..\n', full, 0, full, True, viol, {'part': 'huge'})
            judge('cut report of %d bytes' % len(full), rep, b'', full[:len(full) - 7], 1, full, False, viol, {'part': 'huge', 'cut': True})
            evals += 2
    elif kind == 'latin1':
        # a child whose stderr is not UTF-8 (legacy locale, PYTHONIOENCODING):
        # the report must still be counted; names arrive with replacement characters
        for fails, errs in ((['t\xebst_caf\xe9 (m.T)'], []), (['plain (m.T)'], ['gr\xf6\xdfe (m.T)']),
                            (['a (m.T)', '\xe9 (m.T)', 'b (m.T)'], ['c (m.T)'])):
            rep = (7, fails, errs)
            full = make_report(*rep).decode('utf-8').encode('latin-1')
            for v in (0, 1):
                res, failures, errors, exc, state, printed = call_spawn(b'..\n', full, v)
                evals += 1
                sig = {'part': 'latin1'}
                d = 'child report in latin-1 %r: ' % (full[:60],)
                if exc is not None:
                    viol.append(('exception_escaped', sig, d + repr(exc)))
                    continue
                if res.num_ran != 7 or len(failures) != len(fails) or len(errors) != len(errs):
                    viol.append(('report_lost', sig, d + 'num_ran=%s, %d failures (expected %d), %d errors (expected %d): %r %r' % (res.num_ran, len(failures), len(fails), len(errors), len(errs), failures, errors)))
                if not res.done:
                    viol.append(('done_not_set', sig, d))
    elif kind == 'ascii_parent':
        # the parent's own stdout cannot encode what the child wrote (an
        # ASCII / cp1252 console): whatever happens to the banner, the error
        # for the layer must already be on record
        rep = (3, ['t\xebst (m.T.t\xebst)'], [])
        full = make_report(*rep)
        inputs = [('undecodable', b'\xff\xfe invalid utf-8\n'),
                  ('non-ascii text', 'Ger\xe4t antwortet nicht \u2013 Abbruch\n'.encode('utf-8')),
                  ('cut in a non-ascii name', full[:len(full) - 9]),
                  ('header only', full.split(b'\n')[0] + b'\n'),
                  ('empty', b'')]
        for label, err in inputs:
            for v in (0, 1, 2):
                for enc in ('ascii', 'latin-1'):
                    res, failures, errors, exc, state, printed = call_spawn('caf\xe9\n'.encode('utf-8'), err, v, parent_encoding=enc)
                    evals += 1
                    sig = {'part': 'ascii_parent', 'v': v}
                    d = 'parent stdout encoding %s, -v%d, child stderr %s: ' % (enc, v, label)
                    if exc is not None and not isinstance(exc, UnicodeError):
                        viol.append(('exception_escaped', sig, d + repr(exc)))
                    if [e[0] for e in errors] != ['subprocess for vtw.tests.L'] or failures:
                        viol.append(('no_single_layer_error', sig, d + 'errors=%r failures=%r (exception %r)' % ([e[0] for e in errors], failures, exc)))
                    if not res.done:
                        viol.append(('done_not_set', sig, d))
                    if state['kill'] != 1 or state['communicate'] != 1:
                        viol.append(('child_not_killed_and_reaped', sig, d + str(state)))
    elif kind == 'world':
        evals, vs = run_noise_world(a, b)
        viol += vs
    elif kind == 'stdout':
        rep = (3, [NAMES[0]], [])
        full = make_report(*rep)
        for so in STDOUTS:
            for v in (0, 1, 2):
                judge('stdout %r' % so[:20], rep, so, full, v, full, True, viol, {'part': 'stdout'})
                evals += 1
    elif kind == 'oserror':
        import errno as _errno
        for en in (_errno.EMFILE, _errno.EAGAIN, _errno.ENOMEM, _errno.ENOENT, _errno.EACCES, _errno.EINTR):
            for v in (0, 1, 2):
                res, failures, errors, exc, state, printed = call_spawn(b'', b'', v, oserror=True, oserrno=en)
                evals += 1
                if exc is not None:
                    viol.append(('exception_escaped', {'part': 'oserror'}, 'errno %s: %r' % (_errno.errorcode[en], exc)))
                elif [e[0] for e in errors] != ['subprocess for vtw.tests.L'] or failures or not res.done:
                    viol.append(('spawn_failure_not_recorded', {'part': 'oserror'}, 'errno %s: errors=%r failures=%r done=%s' % (_errno.errorcode[en], errors, failures, res.done)))
    elif kind == 'xfault':
        spec = ow.build('N1B2C1', ['pass', 'pass', 'pass', 'pass'])
        first = []

        def hook(layer, args):
            if not first:
                first.append(layer)
                return XFAULTS[a]
            return None
        res = runrt.run_world(spec, ['-x'] + list(b), child_hook=hook)   # a hang raises RunHang
        evals = 1
        sig = {'part': 'xfault', 'fault': a, 'argv': ' '.join(b)}
        if res.escaped:
            viol.append(('run_aborted', sig, res.escaped_tb))
        else:
            en = [e for e in (res.errors or [])]
            if not res.failed or len(en) != 1 or not first or first[0] not in en[0] or res.failures:
                viol.append(('fault_not_recorded_once', sig, 'the first child (%s) %s under -x %s: failed=%s errors=%s failures=%s'
                             % (first, a, b, res.failed, res.errors, res.failures)))
    elif kind == 'crash':
        evals, vs = run_crash(a[0], a[1], b)
        viol += vs
    elif kind == 'conf':
        evals, vs = run_conf(a, b)
        viol += vs
    out = []
    for clause, sig, detail in viol[:30]:
        if sig.get('spoofed_header') and clause in ('ran_lost', 'failure_names_wrong', 'error_names_wrong', 'no_single_layer_error', 'partial_data_used'):
            clause = 'header_spoofed'
            sig = {'spoofed_header': True}
        out.append({'clause': clause, 'sig': sig, 'detail': detail})
    return {'evals': max(evals, 1), 'nontrivial': max(evals, 1), 'violations': out,
            'outcome': kind,
            'counters': {'real_process_runs': evals if kind in ('crash', 'conf') else 0}}


def worlds_tag(n):
    if len(n) > 1000:
        return 'long'
    for ch, t in (('\r\n', 'CRLF'), ('\n', 'LF'), ('\r', 'CR'), (' ', 'LS'), ('\x0b', 'VT'),
                  ('\x1c', 'FS'), ('\x85', 'NEL'), ('\t', 'TAB')):
        if ch in n:
            return t
    if n.strip() != n:
        return 'blanks'
    if ow._triple(n.encode('utf-8', 'backslashreplace')) is not None:
        return 'triple'
    return 'plain' if n.isascii() else 'non-ascii'


# ----------------------------------------------- what the TESTS write (worlds)

# (shape, scripts, argv): a failing and an erroring test in layers that run in
# children, resumed (no -j) and under -j2
NOISE_WORLDS = [
    ('N1B2C1', ['pass', 'fail', None, 'error'], []),
    ('N1B2C1', ['pass', None, 'fail', 'pass'], []),
    ('N1B2C1', ['pass', 'fail', None, 'error'], ['-v']),
    ('N1B2C1', ['pass', 'fail', None, 'error'], ['-j2']),
    ('A2B1i', [None, 'fail', 'error'], ['-j2']),
    ('A2B1i', ['sub:1,1,0', None, 'pass'], ['-j3', '-vv']),
    ('U1A2', ['pass', None, 'fail'], ['-j2']),
    # with --buffer (the streams are swapped around every test), and with the
    # FAILING test itself writing the look-alike
    ('N1B2C1', ['pass', 'fail', None, 'error'], ['--buffer']),
    ('N1B2C1', ['pass', 'FAILW', 'pass', 'error'], ['--buffer']),
    ('A2B1i', ['FAILW', 'fail', 'error'], ['-j2', '--buffer']),
    ('A2B1i', ['FAILW', 'pass', 'pass'], ['-j2']),
    # --stop-on-error: layers that are never started must not keep the parent waiting
    ('N1B2C1', ['pass', 'fail', None, 'error'], ['-x']),
    ('N1B2C1', ['pass', None, 'fail', 'pass'], ['-x', '-j2']),
    ('A2B1i', ['fail', None, 'error'], ['-j2', '--stop-on-error', '-v']),
]
# a child that fails to start / dies without a report, under --stop-on-error
XFAULTS = {'oserror': ('oserror',), 'silent': ('bytes', b'', b''),
           'header_only': ('bytes', b'', b'2 1 0\n'), 'garbage': ('bytes', b'', b'Fatal Python error: Segmentation fault\n\n')}
# what the noisy test writes through sys.stdout / sys.stderr (never the real
# fd 2: that is the known header-spoofing finding)
TEST_NOISE = [
    [['o', '0 0 0\n', False]], [['e', '0 0 0\n', False]], [['e', '7 1 0\n', False]],
    [['e', '1 0 0\n', True]], [['o', '2 1 1\nx\ny\n', True]],
    [['e', '9 9 9', False]], [['e', '\n1 1 1\n\n', False]],
    [['e', 'x' * 300000 + '\n3 0 0\n', False]],
    [['o', 'caf\xe9 \u2028 3 0 0\n', False], ['e', '3 0 0\r\n', False]],
    [['e', 'Traceback (most recent call last):\n  File "x", line 1\nValueError\n', False]],
]


def run_noise_world(wi, ni):
    shape, sc, argv = NOISE_WORLDS[wi]
    sc = [({'s': 'pass', 'w': TEST_NOISE[ni], 'ws': TEST_NOISE[ni]} if s is None else
           ({'s': 'fail', 'w': TEST_NOISE[ni]} if s == 'FAILW' else s)) for s in sc]
    spec = ow.build(shape, sc)
    res = runrt.run_world(spec, argv)
    truth = ow.Truth(spec, res)
    viol = []
    sig = {'part': 'world', 'noise': ni, 'argv': ' '.join(argv)}
    d = 'world %s %s argv=%s: ' % (shape, sc, argv)
    if res.escaped:
        viol.append(('run_aborted', sig, d + res.escaped_tb))
        return 1, viol
    if not res.children:
        viol.append(('harness_no_children', sig, d))
    ft, fl, fs, fo = ow.split_names(res.failures or [])
    et, el, es, eo = ow.split_names(res.errors or [])
    if ft != truth.fail or et != truth.err or fl or fs or fo or el or es or eo:
        viol.append(('names_wrong', sig, d + 'parent holds failures %s errors %s; really failed %s errored %s' % (res.failures, res.errors, dict(truth.fail), dict(truth.err))))
    T = len(truth.runs)
    if res.ran != T:
        viol.append(('ran_lost', sig, d + 'Runner.ran=%s, %d tests ran' % (res.ran, T)))
    if not res.failed:
        viol.append(('verdict_passed', sig, d))
    return 1, viol


# ------------------------------------------------------------ real processes

def crash_spec(point, way, mode):
    A = {'n': 'A', 'b': [], 'k': 'c', 'h': list(worlds.HOOKS_SD)}
    B = {'n': 'B', 'b': [], 'k': 'c', 'h': list(worlds.HOOKS_SD)}
    C = {'n': 'C', 'b': [], 'k': 'c', 'h': list(worlds.HOOKS_SD)}
    if mode == 'resumed':
        A['f'] = {'tearDown': 'NIE'}
    tests = [{'n': 'a0', 'l': 'A', 's': 'pass'},
             {'n': 'b0', 'l': 'B', 's': 'pass'}, {'n': 'b1', 'l': 'B', 's': 'pass'},
             {'n': 'c0', 'l': 'C', 's': 'fail'}, {'n': 'c1', 'l': 'C', 's': 'pass'}]
    spec = {'layers': [A, B, C], 'tests': tests}
    if point == 'import':
        spec['import_die'] = way
        spec['import_die_layer'] = 'B'
    elif point == 'layer_setUp':
        B['f'] = {'setUp': 'DIE:' + way}
    elif point == 'layer_tearDown':
        B['f'] = dict(B.get('f') or {}, tearDown='DIE:' + way)
    elif point == 'test_setUp':
        tests[1]['s'] = 'die_setup:' + way
    elif point == 'test_body':
        tests[2]['s'] = 'die_body:' + way
    elif point == 'test_tearDown':
        tests[1]['s'] = 'die_teardown:' + way
    elif point.startswith('str:'):
        tests[1]['s'] = 'fail'
        tests[1]['str_die'] = [int(point[4:]), way]
    return spec


def run_crash(point, way, mode):
    spec = crash_spec(point, way, mode)
    argv = ['-j2'] if mode == 'j2' else []
    res = runrt.run_cli(spec, argv, timeout=60)
    viol = []
    sig = {'part': 'crash', 'point': point.split(':')[0], 'way': way, 'mode': mode}
    d = 'child of layer B dies at %s by %s (%s): ' % (point, way, mode)
    died = any((ev[1] == 'L' and ev[4] == 'die') or (ev[1] == 't' and ev[3] == 'str_die') for ev in res.trace) \
        or point in ('import', 'test_setUp', 'test_body', 'test_tearDown')
    if point.startswith('str:'):
        died = any(ev[1] == 't' and ev[3] == 'str_die' for ev in res.trace)
    if res.rc == 'timeout':
        viol.append(('parent_hangs', sig, d + 'no exit within 60 s\n' + res.text[-800:]))
        return 1, viol
    text = res.text
    if died:
        if res.rc != 1:
            viol.append(('verdict_not_failed', sig, d + 'exit status %r\n%s' % (res.rc, text[-1200:])))
        if 'subprocess for vtw.tests.B' not in text and mode == 'j2' and '-v' in argv:
            pass
        # the other layers' results are intact: C's failure is listed
        tot = runrt.TOTAL_RE.search(text)
        if not tot:
            viol.append(('no_totals', sig, d + text[-800:]))
        else:
            t, f, e, s = map(int, tot.groups())
            if f != 1 or e < 1:
                viol.append(('other_results_damaged_or_no_error', sig, d + 'Total says %s' % (tot.group(0),) + '\n' + text[-1500:]))
        # layer C and A ran
        ran = {ev[2] for ev in res.trace if ev[1] == 't' and ev[3] == 'body'}
        if not {'a0', 'c0', 'c1'} <= ran:
            viol.append(('other_layers_not_run', sig, d + 'ran %s' % sorted(ran)))
    else:
        # the scheduled death point was never reached (k larger than the
        # number of str() calls): the run must then be an ordinary failed run
        if res.rc != 1:
            viol.append(('verdict_not_failed', dict(sig, died=False), d + 'rc=%r' % (res.rc,)))
    return 1, viol


CONF_WORLDS = [
    ('N1B2C1', ['pass', 'pass', 'pass', 'pass']),
    ('N1B2C1', ['pass', 'fail', 'pass', 'error']),
    ('N1B2C1', ['pass', 'sub:1,1,0', 'skip_body', 'pass']),
    ('A2B1i', ['pass', 'fail', 'uxs']),
    ('A1B2c', ['pass', 'body+teardown', 'pass']),
    ('U1A2', ['pass', {'s': 'fail', 'w': [['o', 'token on stdout\n', False], ['e', 'token on stderr\n', False]]}, 'pass']),
]
_NORM = [(re.compile(rb'\d+\.\d{3} seconds'), b'N.NNN seconds'),
         (re.compile(rb'File "[^"]*", line \d+'), b'File "F", line N'),
         (re.compile(rb'0x[0-9a-f]+'), b'0xX'),
         (re.compile(rb'\n\s*\^+\s*(?=\n)'), b'')]


def norm(b):
    for rx, rp in _NORM:
        b = rx.sub(rp, b)
    return b


def run_conf(wi, mode):
    """Real child processes vs the in-process child: same argv, same bytes."""
    shape, sc = CONF_WORLDS[wi]
    spec = ow.build(shape, sc)
    if mode == 'j2' and shape == 'N1B2C1':
        for L in spec['layers']:
            L.pop('f', None)
    argv = ['-j2'] if mode == 'j2' else []
    if mode == 'resumed' and shape != 'N1B2C1':
        return 0, []
    inproc = runrt.run_world(spec, argv, probe=False)
    viol = []
    n = 0
    root = env.scratch('vtconf')
    try:
        worldrt.write_disk(spec, root)
        for ch in inproc.children:
            args = ch['args']
            # the same argument vector, for a real interpreter
            cmd = [env.PY, os.path.join(env.REPO_SRC, 'zope', 'testrunner', '__main__.py')] + args[2:] + ['--path', root]
            e = env.child_env()
            p = subprocess.run(cmd, env=e, stdout=subprocess.PIPE, stderr=subprocess.PIPE,
                               stdin=subprocess.DEVNULL, timeout=120, cwd=root)
            n += 1
            sig = {'part': 'conf', 'mode': mode}
            if norm(p.stderr) != norm(ch['stderr']):
                viol.append(('child_report_bytes_differ', sig, 'layer %s: real stderr %r, in-process %r' % (ch['layer'], p.stderr[-400:], ch['stderr'][-400:])))
            if norm(p.stdout) != norm(ch['stdout']):
                viol.append(('child_stdout_bytes_differ', sig, 'layer %s: real stdout %r\nin-process %r' % (ch['layer'], norm(p.stdout)[-1500:], norm(ch['stdout'])[-1500:])))
    finally:
        env.rmtree(root)
    return n, viol
