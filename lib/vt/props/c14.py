"""C14 — discovery loads exactly the matching test modules, once, sorted."""
import itertools
import os
import re
import sys

from vt import env
from vt import refmodel
from vt import runrt
from vt import worlds

ID = 'C14'
LEVEL = 'exploration'
RULE = ('trees = every combination of <=K root entries out of 23 (four symbolic links to outside directories - identifier, non-identifier and ignored link names -, test-named '
        'and other files, a tests/ directory in 4 variants (with/without '
        '__init__.py, nested sub dir, a tests-pattern module inside), a pkg/ '
        'directory in 4 variants (package, namespace package, nested tests '
        'package + non-identifier sub dir, inner package), and six '
        'directories that must be skipped: foo-bar, .git, node_modules, CVS, '
        '1abc, __pycache__) x 17 configurations (patterns, repeated / nested / '
        'mixed search paths, --package-path, -m positive/negated/alternation, '
        '-s, --ignore_dir) x 3 os.walk listing orders (identity, reversed, '
        'rotated, through a proxy for find.os); every module logs its import; '
        'the sequence of imported files must equal the reference predicate\'s '
        'sorted, de-duplicated, filtered list, and --list-tests must show each loaded module\'s test exactly once. non-trivial = >=2 candidate '
        'files in the tree')
ASSUMPTIONS = [
    'the reference predicate is written from the property statement (identifier directory names, ignored names, tests-pattern modules, test-file-pattern files inside tests-pattern packages with __init__.py)',
    'listing order is owned through a proxy os module in zope.testrunner.find; the real file system is tmpfs',
]
BOUND = {'quick': 'K<=3 root entries', 'thorough': 'K<=4 root entries, 5 listing orders'}
CHUNK = 32

MODSRC = '''from vt import worldrt
worldrt.emit('import', __name__, __file__)
import unittest
class T(unittest.TestCase):
    def test_it(self):
        pass
'''

FILES = {
    'f:tests.py': ['tests.py'], 'f:test_x.py': ['test_x.py'],
    'f:ftests.py': ['ftests.py'], 'f:other.py': ['other.py'],
    'f:tests.txt': ['tests.txt'],
    # files whose extension is not ".py" (none at all, a prefix / an
    # extension of it, other case, a backup file)
    'f:noext': ['tests', 'ftests.', 'test_x.p'],
    'f:otherext': ['tests.pyw', 'tests.PY', 'tests.py~', 'tests.pyc'],
    't:5': ['tests/__init__.py', 'tests/test_a.py', 'tests/test_notes', 'tests/test_b.p', 'tests/test_c.', 'tests/test_d.pyx', 'tests/test_e.py.bak'],
    't:1': ['tests/__init__.py', 'tests/test_a.py', 'tests/testb.py', 'tests/helper.py'],
    't:2': ['tests/test_a.py', 'tests/testb.py', 'tests/helper.py'],
    't:3': ['tests/__init__.py', 'tests/test_a.py', 'tests/sub/test_c.py', 'tests/sub/tests.py'],
    't:4': ['tests/__init__.py', 'tests/test_a.py', 'tests/ftests.py', 'tests/tests.py'],
    'p:1': ['pkg/__init__.py', 'pkg/tests.py'],
    'p:2': ['pkg/tests.py'],
    'p:3': ['pkg/__init__.py', 'pkg/tests/__init__.py', 'pkg/tests/test_d.py', 'pkg/foo-bar/tests.py', 'pkg/1st/tests.py'],
    'p:4': ['pkg/__init__.py', 'pkg/tests.py', 'pkg/inner/__init__.py', 'pkg/inner/tests.py', 'pkg/inner/ftests.py'],
    # sibling packages whose names are in a string-prefix relation
    'p:5': ['pkg/__init__.py', 'pkg/core/__init__.py', 'pkg/core/tests.py', 'pkg/core_ext/__init__.py', 'pkg/core_ext/tests.py',
            'pkg/corex/__init__.py', 'pkg/corex/tests.py'],
    # sibling directories whose names differ in case / start with an
    # underscore (code-point order: upper case < '_' < lower case), and names
    # that differ in case only
    'c:mixed': ['Zeta/__init__.py', 'Zeta/tests.py', 'alpha/__init__.py', 'alpha/tests.py',
                '_under/__init__.py', '_under/tests.py', 'Beta/__init__.py', 'Beta/tests.py'],
    'c:twins': ['PKG/__init__.py', 'PKG/tests.py', 'pkG/__init__.py', 'pkG/tests.py', 'Pkg/__init__.py', 'Pkg/tests.py'],
    'd:foo-bar': ['foo-bar/tests.py'], 'd:.git': ['.git/tests.py'],
    'd:node_modules': ['node_modules/tests.py'], 'd:CVS': ['CVS/tests.py'],
    'd:1abc': ['1abc/tests.py'], 'd:__pycache__': ['__pycache__/tests.py'],
    # symbolic links to directories outside the tree: followed like
    # directories when their *link name* is an identifier and not ignored
    'l:lnk': ['lnk/tests.py', 'lnk/sub/tests.py'],
    'l:my-data': ['my-data/tests.py'],
    'l:_darcs': ['_darcs/tests.py'],
    'l:zlink': ['zlink/tests/__init__.py', 'zlink/tests/test_z.py'],
}
SYMLINKS = {'lnk', 'my-data', '_darcs', 'zlink'}
ITEMS = list(FILES)
IGNORE_FOLDERS = {'.git', 'node_modules', '__pycache__'}
IGNORE_DIR = {'.git', '.svn', 'CVS', '{arch}', '.arch-ids', '_darcs'}

CONFIGS = {
    'default': {},
    'tp_ftests': {'tests_pattern': '^f?tests$'},
    'fp_testb': {'file_pattern': '^testb'},
    'dup_path': {'paths': ['', '']},
    'nested_path': {'paths': ['', 'pkg']},
    'nested_rev': {'paths': ['pkg', '']},
    'test_path': {'paths': [''], 'kind': 'test-path'},
    'pkg_path': {'paths': [''], 'package_path': ('pkg', 'pkg')},
    'm_pos': {'m': ['^pkg']},
    'm_neg': {'m': ['!pkg']},
    'm_alt': {'m': [r'tests$|test_a']},
    'm_pkgpath': {'paths': [''], 'package_path': ('pkg', 'pkg'), 'm': [r'^pkg\.']},
    'pkgpath_only': {'paths': [], 'package_path': ('pkg', 'pkg')},
    'm_pkgpath_only': {'paths': [], 'package_path': ('pkg', 'pkg'), 'm': [r'^pkg\.']},
    'm_neg_pkgpath_only': {'paths': [], 'package_path': ('pkg', 'pkg'), 'm': [r'!^pkg\.tests$']},
    's_pkg': {'s': 'pkg'},
    # overlapping --package filters under ONE search path
    's_pkg_inner': {'s': ['pkg', 'pkg.inner']},
    's_inner_pkg': {'s': ['pkg.inner', 'pkg']},
    's_pkg_twice': {'s': ['pkg', 'pkg']},
    's_core_ext': {'s': ['pkg.core', 'pkg.core_ext']},
    's_ext_core': {'s': ['pkg.core_ext', 'pkg.core', 'pkg.corex']},
    # several --module patterns; one of them only right when compiled alone
    'm_multi_flag': {'m': [r'(?i)PKG\.', 'TEST_A', 'FTESTS']},
    'm_multi_neg_flag': {'m': ['!(?i)PKG', '!TEST_A', '!TESTB']},
    'm_multi_backref': {'m': [r'(t)es\1s$', r'(p)kg\.(i)nner']},
    # the search path spelled through a symbolic link to the tree
    'via_link': {'via_link': True},
    'via_link_tp_s': {'via_link': True, 'kind': 'test-path', 's': 'pkg'},
    'via_link_s_inner': {'via_link': True, 'kind': 'test-path', 's': ['pkg.inner']},
    'ignore_pkg': {'ignore_dir': 'pkg'},
    # a second search path BELOW a directory the walk from the first one skips
    'nested_cvs': {'paths': ['', 'CVS'], 'needs': 'd:CVS'},
    'nested_nm': {'paths': ['', 'node_modules'], 'needs': 'd:node_modules'},
    'nested_nm_rev': {'paths': ['node_modules', ''], 'needs': 'd:node_modules'},
    'nested_ignored_pkg': {'paths': ['', 'pkg'], 'ignore_dir': 'pkg'},
    'nested_nonident': {'paths': ['', 'foo-bar'], 'needs': 'd:foo-bar'},
}


def cases(tier, seed):
    K = 3 if tier == 'quick' else 4
    orders = ['id', 'rev', 'rot'] if tier == 'quick' else ['id', 'rev', 'rot', 'rot2', 'evenodd']
    for k in range(1, K + 1):
        for combo in itertools.combinations(range(len(ITEMS)), k):
            kinds = [ITEMS[i].split(':')[0] for i in combo]
            if kinds.count('t') > 1 or kinds.count('p') > 1:
                continue
            names = [ITEMS[i] for i in combo]
            if 'f:tests.py' in names and any(n in names for n in ('t:1', 't:3', 't:4', 't:5')):
                # a module and a regular package of the same name in one
                # directory: Python itself can only import one of them
                continue
            if 'f:noext' in names and 't' in kinds:
                continue              # a file and a directory both named "tests"
            for cfg in worlds.rot(list(CONFIGS), seed):
                if ('pkg' in str(CONFIGS[cfg].get('paths', '')) or 's' in CONFIGS[cfg]
                        or 'package_path' in CONFIGS[cfg]) and 'p' not in kinds:
                    continue
                if CONFIGS[cfg].get('needs') and CONFIGS[cfg]['needs'] not in names:
                    continue
                if 'inner' in str(CONFIGS[cfg].get('s', '')) and 'p:4' not in names:
                    continue          # only p:4 has the package pkg.inner
                if 'core' in str(CONFIGS[cfg].get('s', '')) and 'p:5' not in names:
                    continue
                for od in orders:
                    yield [list(combo), cfg, od]


def history_cases(tier):
    """runs that differ in the list-valued options they use (ignore_dir,
    -s, -m, patterns, search paths): every ordered pair in one process"""
    ix = ITEMS.index
    return [[[ix('p:1')], 'ignore_pkg', 'id'], [[ix('p:1')], 'default', 'id'],
            [[ix('p:4')], 's_pkg_inner', 'id'], [[ix('t:1'), ix('p:1')], 'm_pos', 'id'],
            [[ix('t:4'), ix('p:4')], 'tp_ftests', 'id'], [[ix('t:1'), ix('p:1')], 'fp_testb', 'id'],
            [[ix('p:1')], 'pkg_path', 'id'], [[ix('t:1'), ix('p:1')], 'm_neg', 'id']]


class _OsProxy:
    """find.os replacement: os.walk lists directories in a chosen order."""

    def __init__(self, mode):
        self._mode = mode

    def __getattr__(self, k):
        return getattr(os, k)

    def _perm(self, lst):
        m = self._mode
        if m == 'rev':
            lst.reverse()
        elif m == 'rot' and lst:
            lst[:] = lst[1:] + lst[:1]
        elif m == 'rot2' and len(lst) > 2:
            lst[:] = lst[2:] + lst[:2]
        elif m == 'evenodd':
            lst[:] = lst[::2] + lst[1::2]

    def walk(self, top, *a, **k):
        for dp, dn, fn in os.walk(top, *a, **k):
            self._perm(dn)
            self._perm(fn)
            yield dp, dn, fn


def setup_worker():
    runrt._mods()
    global ROOT, F
    import zope.testrunner.find as F
    ROOT = env.scratch('vtc14')
    import atexit
    atexit.register(env.rmtree, ROOT)


def reference(files, root, cfg, links_first=False):
    """Ordered list of (abs file, module name) the statement demands.
    ``links_first``: the order in which symbolically linked directories come
    before their real siblings (see known_findings.json)."""
    c = CONFIGS[cfg]
    tests_pat = re.compile(c.get('tests_pattern', '^tests$')).search
    file_pat = re.compile(c.get('file_pattern', '^test')).search
    ignore = set(IGNORE_DIR)
    if c.get('ignore_dir'):
        ignore.add(c['ignore_dir'])
    search = [(os.path.join(root, p) if p else root, '') for p in c.get('paths', [''])]
    if c.get('package_path'):
        d, pk = c['package_path']
        search.append((os.path.join(root, d), pk))
    fileset = {os.path.join(root, f) for f in files}
    dirs = {}
    for f in fileset:
        dirs.setdefault(os.path.dirname(f), set()).add(os.path.basename(f))
    alld = set(dirs)
    for d in list(alld):
        while d != root and d.startswith(root):
            d = os.path.dirname(d)
            alld.add(d)

    def subdirs(d):
        return sorted(x for x in alld if os.path.dirname(x) == d and x != d)

    def walk(d):
        fs = sorted(dirs.get(d, ()))
        found = set()
        base = os.path.basename(d)
        if tests_pat(base) and '__init__.py' in fs:
            for f in fs:
                if f.endswith('.py') and file_pat(f[:-3]):
                    found.add(os.path.join(d, f))
        for f in fs:
            if f.endswith('.py') and tests_pat(f[:-3]):
                found.add(os.path.join(d, f))
        for f in sorted(found):
            yield f
        sds = subdirs(d)
        if links_first:
            sds = ([x for x in sds if d == root and os.path.basename(x) in SYMLINKS] +
                   [x for x in sds if not (d == root and os.path.basename(x) in SYMLINKS)])
        for sd in sds:
            b = os.path.basename(sd)
            if not re.match(r'[_a-zA-Z]\w*$', b) or b in IGNORE_FOLDERS or b in ignore:
                continue
            yield from walk(sd)
    starts = search
    if c.get('s'):
        ss = c['s'] if isinstance(c['s'], list) else [c['s']]
        starts = [(os.path.join(root, *x.split('.')), '') for x in ss]
    prefixes = sorted(((p + os.sep, pk) for p, pk in search), key=lambda x: -len(x[0]))
    out = []
    seen = set()
    for p, pk in starts:
        if not os.path.isdir(p):
            continue
        for f in walk(p):
            if f in seen:
                continue
            seen.add(f)
            name = None
            for pre, ppk in prefixes:
                if f.startswith(pre) and ppk == pk:
                    name = f[len(pre):-3].replace(os.sep, '.')
                    if ppk:
                        name = ppk + '.' + name
                    break
            if name is None:
                continue
            if c.get('m') and not refmodel.spec_accept(c['m'], name):
                continue
            out.append((f, name))
    return out


def argv_for(root, cfg):
    c = CONFIGS[cfg]
    if c.get('via_link'):
        root = root + '_link'
    argv = []
    kind = '--' + c.get('kind', 'path')
    for p in c.get('paths', ['']):
        argv += [kind, os.path.join(root, p) if p else root]
    if c.get('package_path'):
        d, pk = c['package_path']
        argv += ['--package-path', os.path.join(root, d), pk]
    if 'tests_pattern' in c:
        argv += ['--tests-pattern', c['tests_pattern']]
    if 'file_pattern' in c:
        argv += ['--test-file-pattern', c['file_pattern']]
    for m in c.get('m', []):
        argv += ['-m', m]
    if c.get('s'):
        for x in (c['s'] if isinstance(c['s'], list) else [c['s']]):
            argv += ['-s', x]
    if c.get('ignore_dir'):
        argv += ['--ignore_dir', c['ignore_dir']]
    return argv + ['--list-tests']


def run_case(case):
    combo, cfg, od = case
    files = []
    for i in combo:
        files += FILES[ITEMS[i]]
    root = os.path.join(ROOT, 'r')
    env.rmtree(root)
    os.makedirs(root)
    ext = os.path.join(ROOT, 'ext')
    env.rmtree(ext)
    for f in files:
        p = os.path.join(root, f)
        top = f.split('/')[0]
        if top in SYMLINKS:
            if not os.path.islink(os.path.join(root, top)):
                os.makedirs(os.path.join(ext, top))
                os.symlink(os.path.join(ext, top), os.path.join(root, top))
            p = os.path.join(ext, f)
        os.makedirs(os.path.dirname(p), exist_ok=True)
        with open(p, 'w') as fh:
            fh.write(MODSRC if f.endswith('.py') and not f.endswith('__init__.py') else '')
    want = reference(files, root, cfg)
    saved_os = F.os
    F.os = _OsProxy(od)
    added = False
    sproot = root
    if CONFIGS[cfg].get('via_link'):
        if os.path.islink(root + '_link'):
            os.unlink(root + '_link')
        os.symlink(root, root + '_link')
        sproot = root + '_link'      # the unresolved spelling is what sys.path has
    if sproot not in sys.path:
        sys.path.insert(0, sproot)      # what PYTHONPATH / the cwd does for --test-path
        added = True
    try:
        res = runrt.run_plain(argv_for(root, cfg), roots=[root, root + '_link'])
    finally:
        F.os = saved_os
        if added and sproot in sys.path:
            sys.path.remove(sproot)
    got = [ev[3] for ev in res.trace if ev[1] == 'import']
    if CONFIGS[cfg].get('via_link'):
        got = [root + f[len(root + '_link'):] if f.startswith(root + '_link') else f for f in got]
    viol = []
    sig = {'cfg': cfg, 'order': od}
    rel = lambda p: os.path.relpath(p, root)
    names = [n for _, n in want]
    # two different file-system locations providing the same dotted name
    # (only possible with nested search paths): Python can import one only
    collide = False
    prov = {}
    for f, n in want:
        parts = n.split('.')
        base = f[:-3]
        for i in range(len(parts), 0, -1):
            key = '.'.join(parts[:i])
            if prov.setdefault(key, base) != base:
                collide = True
            base = os.path.dirname(base)
    if res.escaped:
        viol.append({'clause': 'run_aborted', 'sig': sig,
                     'detail': 'files=%s\n%s' % (files, res.escaped_tb)})
    elif collide:
        if [rel(f) for f in got] != [rel(f) for f, _ in want]:
            viol.append({'clause': 'same_module_name_under_nested_paths',
                         'sig': {'cfg': cfg},
                         'detail': 'files=%s cfg=%s: imported %s, statement demands %s (module names %s)' % (files, cfg, [rel(f) for f in got], [rel(f) for f, _ in want], names)})
    else:
        g, w = [rel(f) for f in got], [rel(f) for f, _ in want]
        if sorted(g) != sorted(w):
            extra = sorted(set(g) - set(w))
            miss = sorted(set(w) - set(g))
            twice = sorted({x for x in g if g.count(x) > 1})
            clause = 'imported_what_it_must_not' if extra else ('loaded_twice' if twice else 'module_not_loaded')
            viol.append({'clause': clause, 'sig': sig,
                         'detail': 'files=%s cfg=%s order=%s: imported %s, reference %s (extra %s missing %s twice %s)' % (files, cfg, od, g, w, extra, miss, twice)})
        elif g != w:
            w2 = [rel(f) for f, _ in reference(files, root, cfg, links_first=True)]
            if g == w2:
                viol.append({'clause': 'symlinked_dirs_listed_before_real_siblings', 'sig': {},
                             'detail': 'files=%s cfg=%s order=%s: imported in order %s, sorted by path would be %s' % (files, cfg, od, g, w)})
            else:
                viol.append({'clause': 'discovery_order', 'sig': sig,
                             'detail': 'files=%s cfg=%s order=%s: imported in order %s, sorted reference %s' % (files, cfg, od, g, w)})
        # every loaded module contributes its one test exactly once
        listed = re.findall(r'^\s+test_it \((\S+)\.T\.test_it\)\s*$', res.text, re.M)
        if sorted(listed) != sorted(names) and not res.import_errors:
            twice = sorted({x for x in listed if listed.count(x) > 1})
            viol.append({'clause': 'tests_listed_twice' if twice else 'listed_tests_differ', 'sig': sig,
                         'detail': 'files=%s cfg=%s order=%s: --list-tests shows the tests of modules %s, reference modules %s\n%s' % (files, cfg, od, sorted(listed), sorted(names), res.text[-600:])})
        if res.import_errors:
            viol.append({'clause': 'import_error', 'sig': sig,
                         'detail': 'files=%s cfg=%s: %s' % (files, cfg, res.text[-500:])})
    return {'nontrivial': len([f for f in files if f.endswith('.py') and not f.endswith('__init__.py')]) >= 2,
            'violations': viol, 'outcome': (cfg, len(got) > 0),
            'counters': {'modules_filtered': 1 if CONFIGS[cfg].get('m') else 0,
                         'trees_with_skipped_dirs': 1 if any(ITEMS[i].startswith('d:') for i in combo) else 0,
                         'trees_with_symlinks': 1 if any(ITEMS[i].startswith('l:') for i in combo) else 0}}
