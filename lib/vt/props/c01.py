"""C01 — layer stack discipline, decided by running the real Runner on every
layer world of the bound and monitoring the hook/test trace."""
import collections

from vt import monitors
from vt import runrt
from vt import worlds

ID = 'C01'
LEVEL = 'exploration'
RULE = ('worlds = every DAG with ordered bases on <=n layers x {class layers '
        '(when a C3 linearisation exists), instance layers} x {names in '
        'topological order, reversed} x {all layers have setUp/tearDown hooks, '
        'exactly one layer hook-less} x every non-empty subset of layers owning '
        'a test x {with, without a unit test} x every placement of <=F faults '
        'from {setUp raises, tearDown raises, tearDown raises '
        'NotImplementedError} x option vectors; plus every multiple-inheritance '
        'DAG on 4 layers under all 24 namings of its nodes; each world is run on the real '
        'Runner (children = real Runner on a fresh build, in-process) and the '
        'set-up/tear-down/test trace of every (virtual) process is monitored; '
        'plus 5 layer shapes x every position of a layer that cannot be torn down x {sequential, -j2} as REAL processes (pid-tagged trace: fresh pid per resumed layer); non-trivial = >=2 layers or >=1 fault; distinct = canonical JSON of '
        'the case')
ASSUMPTIONS = [
    'hook-less layers are observed through the runner\'s own "Set up"/"Tear down" lines',
    'children are atomic in-process runs of the real Runner with the argv the parent computed (one legal schedule); real processes are bound by the conformance cases of C06/C07',
    'CPython 3.12.1 only',
]
BOUND = {
    'quick': 'all multiple-inheritance DAGs n=4 x 24 namings x {all layers, top layer} owning tests; all DAGs n<=3, both kinds, both namings, all owner subsets; all-hooks worlds: <=2 faults under {none,-j2}, <=1 fault under {-x,--repeat 2,--shuffle,--layer X}; with a unit test: <=1 fault under {none,--layer,-j2}; one hook-less layer (each position): <=1 fault under {none,-x,-j2}',
    'thorough': 'all DAGs n<=3 x kinds x namings x owners x unit x (<=2 faults all-hooks, <=1 fault with one hook-less layer) x 12 option vectors (incl. -j3 and pairs); plus n=4: all 160 DAGs, fwd naming, all-hooks, <=1 fault, owner sets of size<=2 and full, {none,-j2,--repeat 2}',
}
CHUNK = 256

def _o_filter(case):
    # fault-free worlds on <=3 layers and the plain n=4 naming family, no options
    return (case[0] not in ('cli', 'big', 'feat') and not case[7] and case[8] in ('none', 'rep', 'j2')
            and (case[0] <= 3 or (isinstance(case[3], list) and case[3] == sorted(case[3]))))


# `assert` statements vanish under python -O: anything the runner does inside
# one is not done there
ENV_PASSES = [{'name': 'python -O', 'argv': ['-O'], 'env': {}, 'filter': _o_filter}]

OPTS = {
    'c': ['-c'], 'c+v3': ['-c', '-vvv'], 'v4': ['-vvvv'], 'p': ['-p'], 'c+p': ['-c', '-p', '-v'], 'Werr': [],
    'none': [],
    'x': ['-x'],
    'rep': ['--repeat', '2'],
    'shuf': ['--shuffle', '--shuffle-seed', '1'],
    'layer': None,
    'j2': ['-j2'],
    'j3': ['-j3'],
    'x+rep': ['-x', '--repeat', '2'],
    'shuf+rep': ['--shuffle', '--shuffle-seed', '3', '--repeat', '2'],
    'j2+rep': ['-j2', '--repeat', '2'],
    'j2+x': ['-j2', '-x'],
    'j2+shuf': ['-j2', '--shuffle', '--shuffle-seed', '5'],
}
FAULT_MENU = [('setUp', 'ValueError'), ('tearDown', 'ValueError'),
              ('tearDown', 'NIE')]


def _plan(tier):
    """(hookless?, unit, max faults, option keys) blocks."""
    if tier == 'quick':
        return [
            (False, False, 2, ['none', 'j2']),
            (False, False, 1, ['x', 'rep', 'shuf', 'layer']),
            (False, True, 1, ['none', 'layer', 'j2']),
            (True, False, 1, ['none', 'x', 'j2']),
        ]
    full = ['none', 'x', 'rep', 'shuf', 'layer', 'j2', 'j3', 'x+rep',
            'shuf+rep', 'j2+rep', 'j2+x', 'j2+shuf']
    return [
        (False, False, 2, full),
        (False, True, 2, full),
        (True, False, 1, full),
        (True, True, 1, full),
    ]


def cases(tier, seed):
    plan = _plan(tier)
    for n in (1, 2, 3):
        for g in worlds.rot(list(worlds.dags(n)), seed):
            kinds = ['i'] + (['c'] if worlds.c3_ok(g) else [])
            for kind in kinds:
                for naming in ('fwd', 'rev'):
                    for hl, unit, maxf, optkeys in plan:
                        for hookless in (list(range(n)) if hl else [None]):
                            hooked = [i for i in range(n) if i != hookless]
                            for owners in worlds.nonempty_subsets(n):
                                for faults in worlds.fault_placements(hooked, FAULT_MENU, maxf):
                                    for ok in optkeys:
                                        yield [n, g, kind, naming, hookless,
                                               owners, unit, faults, ok]
    # tear-down ORDER over larger graphs: every multiple-inheritance DAG with
    # ordered bases on 4 layers under every naming of the nodes (the runner
    # orders layers by name), every layer / only the most derived layer owning
    # a test, with and without one layer that cannot be torn down
    import itertools
    n = 4
    for g in worlds.dags(n):
        if max(len(b) for b in g) < 2:
            continue
        kinds = ['i'] + (['c'] if worlds.c3_ok(g) else [])
        for perm in itertools.permutations(range(n)):
            for kind in kinds:
                for owners in (list(range(n)), [n - 1]):
                    yield [n, g, kind, list(perm), None, owners, False, {}, 'none']
                # the setUp of a layer with several bases raises: its bases
                # are left set up under whatever runs next
                for node in range(n):
                    if len(g[node]) >= 2:
                        yield [n, g, kind, list(perm), None, list(range(n)), False,
                               {node: {'setUp': 'ValueError'}}, 'none']
                if tier == 'thorough':
                    for nie in range(n):
                        yield [n, g, kind, list(perm), None, list(range(n)), False,
                               {nie: {'tearDown': 'NIE'}}, 'none']
    # hand-picked graphs on 5 and 6 layers under every naming
    for g in worlds.DEEP_GRAPHS:
        n = len(g)
        kinds = ['i'] + (['c'] if worlds.c3_ok(g) else [])
        for perm in itertools.permutations(range(n)):
            for kind in kinds:
                for owners in (list(range(n)), [n - 1]):
                    yield [n, g, kind, list(perm), None, owners, False, {}, 'none']
    # durations of a minute and more, the colour formatter, high verbosity, the
    # progress display; hooks that return a value while warnings are errors
    for n in (2, 3):
        for g in worlds.dags(n):
            for kind in ['i'] + (['c'] if worlds.c3_ok(g) else []):
                for ok in ('c', 'c+v3', 'v4', 'p', 'c+p', 'Werr'):
                    for feat in ('slow', 'ret'):
                        yield ['feat', n, g, kind, ok, feat]
                # layer objects of other shapes: falsy ones (an empty
                # container, __bool__), layers compared by value whose bases
                # are equal copies, layers whose name is bound to another
                # object in their module, layers declared by dotted name
                for feat in ('len0', 'bool0', 'eq', 'shadow', 'lstr'):
                    if kind == 'c' and feat not in ('shadow', 'lstr'):
                        continue
                    for ok in ('none', 'j2', 'rep', 'shuf'):
                        yield ['feat', n, g, kind, ok, feat]
                    for nie in range(n):
                        yield ['feat', n, g, kind, 'none', feat, nie]
                # two distinct layer objects with one name (a layer class
                # instantiated twice) as bases of the layer that owns the tests
                if kind == 'i' and n == 3 and not g[0] and not g[1] and sorted(g[2]) == [0, 1]:
                    for ok in ('none', 'x', 'j2', 'rep', 'shuf'):
                        yield ['feat', n, g, kind, ok, 'dupname']
                    yield ['feat', n, g, kind, 'none', 'dupname', 2]
    # a world that is not small: 12 layers (a chain of 3 + 9 independent), 40
    # tests each, with one layer at a time that cannot be torn down
    for nie in (None, 0, 2, 6, 11):
        for ok in ('none', 'j2', 'j3', 'rep', 'shuf'):
            yield ['big', nie, ok]
    # real processes: "the remaining layers run in fresh subprocesses"
    # real processes, -x -j2: a layer fails while a sibling process is in the
    # middle of its layer - every process tears down what it set up
    for v in (0, 1):
        yield ['cli', 'xj', v, 'j2']
    for shape in CLI_SHAPES:
        nl = len(CLI_SHAPES[shape][0])
        for nie in range(nl):
            for mode in ('seq', 'j2'):
                yield ['cli', shape, nie, mode]
    if tier == 'thorough':
        n = 4
        for g in worlds.rot(list(worlds.dags(n)), seed):
            kinds = ['i'] + (['c'] if worlds.c3_ok(g) else [])
            for kind in kinds:
                ownersets = [o for o in worlds.nonempty_subsets(n)
                             if len(o) <= 2 or len(o) == n]
                for owners in ownersets:
                    for faults in worlds.fault_placements(range(n), FAULT_MENU, 1):
                        for ok in ('none', 'j2', 'rep'):
                            yield [n, g, kind, 'fwd', None, owners, False,
                                   faults, ok]


CLI_SHAPES = {
    'chain': ([('A', []), ('B', ['A']), ('C', ['B'])], ['A', 'B', 'C']),
    'fork': ([('A', []), ('B', ['A']), ('C', ['A'])], ['A', 'B', 'C']),
    'diamond': ([('A', []), ('B', ['A']), ('C', ['A']), ('D', ['B', 'C'])], ['B', 'C', 'D']),
    'two_roots': ([('A', []), ('B', []), ('C', ['B'])], ['A', 'B', 'C']),
    'unit_chain': ([('A', []), ('B', ['A'])], [None, 'A', 'B']),
}


def run_cli_case(shape, nie, mode):
    if shape == 'xj':
        from vt.props import c16
        return [(v['clause'], {'part': 'cli', 'shape': 'xj'}, v['detail']) for v in c16.run_xj_case(nie)
                if v['clause'] == 'layer_not_torn_down']
    lay, owners = CLI_SHAPES[shape]
    layers = []
    for i, (n, bs) in enumerate(lay):
        L = {'n': n, 'b': list(bs), 'k': 'c', 'h': list(worlds.HOOKS_SD)}
        if i == nie:
            L['f'] = {'tearDown': 'NIE'}
        layers.append(L)
    tests = []
    for o in owners:
        tests.append({'n': 't' + (o or 'u'), 'l': o, 's': 'pass'})
        tests.append({'n': 's' + (o or 'u'), 'l': o, 's': 'pass'})
    spec = {'layers': layers, 'tests': tests}
    res = runrt.run_cli(spec, ['-j2'] if mode == 'j2' else [], timeout=120)
    sv = monitors.SpecView(spec)
    viol = []
    sig = {'part': 'cli', 'mode': mode}
    d = 'real processes, shape %s, layer #%d cannot be torn down, %s: ' % (shape, nie, mode)
    if res.rc != 0:
        viol.append(('cli_failed', sig, d + 'exit %r\n%s' % (res.rc, res.text[-800:])))
    # per real pid: the same stack monitor, on hook events only
    pids = []
    for ev in res.trace:
        if ev[0] not in pids:
            pids.append(ev[0])
    parent = pids[0] if pids else None
    by_pid = {}
    for ev in res.trace:
        by_pid.setdefault(ev[0], []).append(ev)

    class R:
        pass
    for pid, evs in by_pid.items():
        r = R()
        r.trace = [(pid,) + tuple(e[1:]) + (True, True, 0, 0) for e in evs]
        r.out = r.out_own = b''
        r.children = []
        for clause, detail in monitors.check_layer_stack(sv, r):
            viol.append(('stack:' + clause, sig, d + detail))
    where = {}
    for ev in res.trace:
        if ev[1] == 't' and ev[3] == 'body':
            where.setdefault(ev[2], set()).add(ev[0])
    for t in tests:
        if len(where.get(t['n'], ())) != 1:
            viol.append(('executed_once_in_one_process', sig, d + 'test %s ran in pids %s' % (t['n'], sorted(where.get(t['n'], ())))))
    # after the NotImplementedError: later layers in fresh pids, one per layer
    nie_pid_layers = {}
    for ev in res.trace:
        if ev[1] == 't' and ev[3] == 'body':
            nie_pid_layers.setdefault(ev[0], set()).add(sv.tests[ev[2]].get('l'))
    for pid, ls in nie_pid_layers.items():
        if pid != parent and len(ls) > 1:
            viol.append(('child_ran_two_layers', sig, d + 'pid %s ran %s' % (pid, sorted(map(str, ls)))))
    if mode == 'j2' and parent in nie_pid_layers:
        viol.append(('parent_ran_tests_under_j', sig, d + str(nie_pid_layers[parent])))
    saw_nie = [ev for ev in res.trace if ev[0] == parent and ev[1] == 'L' and ev[3] == 'tearDown' and ev[4] == '!' and ev[5] == 'NIE']
    if mode == 'seq' and saw_nie:
        idx = res.trace.index(saw_nie[0])
        later = {ev[0] for ev in res.trace[idx + 1:] if ev[1] == 't' and ev[3] == 'body'}
        if parent in later:
            viol.append(('test_after_nie_in_parent', sig, d))
        if later and not (later - {parent}):
            viol.append(('no_fresh_subprocess', sig, d))
    return viol


def build_spec(case):
    n, g, kind, naming, hookless, owners, unit, faults, ok = case
    names = worlds.names_for(n, naming)
    hooks = [[] if i == hookless else list(worlds.HOOKS_SD) for i in range(n)]
    faults = {int(k): v for k, v in (faults or {}).items()}
    layers = worlds.layer_specs(g, kind, names, hooks, faults)
    tests = []
    if unit:
        tests.append({'n': 'u0', 'l': None, 's': 'pass'})
    first = True
    for i in owners:
        s = 'pass'
        if 'x' in ok.split('+') and first:
            s = 'fail'
        first = False
        tests.append({'n': 't' + names[i], 'l': names[i], 's': s})
        if len(owners) == 1:
            tests.append({'n': 's' + names[i], 'l': names[i], 's': 'pass'})
    spec = {'layers': layers, 'tests': tests}
    argv = OPTS[ok]
    if ok == 'layer':
        argv = ['--layer', 'vtw.tests.%s$' % names[owners[-1]]]
    return spec, list(argv)


def setup_worker():
    runrt._mods()


def history_key(case):
    """second run in one process: two-layer chains with every option vector,
    one with a layer that cannot be torn down, one with a setUp fault"""
    if case[0] == 2 and [list(b) for b in case[1]] == [[], [0]] and case[2] == 'i' and case[3] == 'fwd' and case[4] is None \
            and list(case[5]) == [0, 1] and case[6] is False:
        if not case[7]:
            return ('opt', case[8])
        if case[8] == 'none' and len(case[7]) == 1:
            return ('fault', str(sorted(case[7].items())))
    return None


HISTORY_MAX = 10


def run_case(case):
    if case[0] == 'cli':
        vs = run_cli_case(case[1], case[2], case[3])
        return {'evals': 1, 'nontrivial': True, 'nogate': True,
                'violations': [{'clause': c, 'sig': s, 'detail': d} for c, s, d in vs],
                'outcome': 'cli', 'counters': {'real_process_runs': 1}}
    if case[0] == 'feat':
        _, n, g, kind, ok, feat = case[:6]
        names = worlds.names_for(n, 'fwd')
        layers = worlds.layer_specs(g, kind, names, [list(worlds.HOOKS_SD)] * n)
        for i, L in enumerate(layers):
            if feat == 'slow':
                L['slow'] = [61, 3700, 0.5][i % 3]     # > 1 minute, > 1 hour
            elif feat == 'ret':
                L['ret'] = True
            elif feat == 'shadow':
                L['shadow'] = True
            elif feat == 'dupname':
                if i < n - 1:
                    L['rn'] = 'Srv'
            elif feat != 'lstr':
                L['ish'] = feat
            if len(case) > 6 and case[6] == i:
                L['f'] = {'tearDown': 'NIE'}
        tests = [{'n': 't' + nm, 'l': nm, 's': 'pass', 'slowt': 75 if feat == 'slow' else None,
                  'lstr': feat == 'lstr'} for nm in names]
        tests.append({'n': 'tf', 'l': names[-1], 's': 'fail'})
        if feat == 'dupname':
            tests = [t for t in tests if t['l'] == names[-1]]
        spec = {'layers': layers, 'tests': tests}
        res = runrt.run_world(spec, list(OPTS[ok]), warnings='error' if ok == 'Werr' else None)
        sv = monitors.SpecView(spec)
        states, transitions = set(), set()
        viol = []
        sg = {'opt': ok, 'kind': feat}
        if res.escaped:
            viol.append({'clause': 'run_aborted', 'sig': dict(sg, exc=res.escaped), 'detail': res.escaped_tb})
        for clause, detail in monitors.check_layer_stack(sv, res, states, transitions):
            viol.append({'clause': clause, 'sig': sg, 'detail': detail[:2000] + '\nargv=%s spec=%s' % (OPTS[ok], spec)})
        ex = collections.Counter(tid for vpid, tid in monitors.executed(res))
        if set(ex.values()) != {2 if ok == 'rep' else 1} or len(ex) != len(tests):
            viol.append({'clause': 'executed_count', 'sig': sg, 'detail': '%s\nargv=%s spec=%s' % (dict(ex), OPTS[ok], spec)})
        return {'nontrivial': True, 'violations': viol, 'states': states, 'transitions': transitions,
                'outcome': ('feat', feat, bool(res.escaped))}
    if case[0] == 'big':
        from vt import ow
        spec = ow.big_spec(nie=case[1], scripts=['pass', 'pass', 'fail', 'skip_body'])
        argv = list(OPTS[case[2]])
        res = runrt.run_world(spec, argv)
        sv = monitors.SpecView(spec)
        states, transitions = set(), set()
        viol = []
        if res.escaped:
            viol.append({'clause': 'run_aborted', 'sig': {'opt': case[2], 'kind': 'big'}, 'detail': res.escaped_tb})
        for clause, detail in monitors.check_layer_stack(sv, res, states, transitions):
            viol.append({'clause': clause, 'sig': {'opt': case[2], 'kind': 'big'}, 'detail': detail[:2000]})
        ex = collections.Counter(tid for vpid, tid in monitors.executed(res))
        want = 2 if case[2] == 'rep' else 1
        wrong = {t: c for t, c in ex.items() if c != want}
        if wrong or len(ex) != len(spec['tests']):
            viol.append({'clause': 'executed_count', 'sig': {'opt': case[2], 'kind': 'big'},
                         'detail': '%d of %d tests executed, wrong counts for %s' % (len(ex), len(spec['tests']), dict(list(wrong.items())[:10]))})
        return {'nontrivial': True, 'violations': viol, 'states': states, 'transitions': transitions,
                'outcome': ('big', len(res.children))}
    n, g, kind, naming, hookless, owners, unit, faults, ok = case
    spec, argv = build_spec(case)
    res = runrt.run_world(spec, argv)
    sv = monitors.SpecView(spec)
    states, transitions = set(), set()
    viol = []
    sigbase = {'opt': ok, 'kind': kind}
    if res.escaped:
        viol.append({'clause': 'run_aborted', 'sig': dict(sigbase, exc=res.escaped),
                     'detail': res.escaped_tb})
    for clause, detail in monitors.check_layer_stack(sv, res, states, transitions):
        viol.append({'clause': clause, 'sig': dict(sigbase), 'detail': detail})
    # ---- who ran where
    opts = ok.split('+')
    repeat = 2 if 'rep' in opts else 1
    ex = collections.Counter()
    where = collections.defaultdict(set)
    for vpid, tid in monitors.executed(res):
        ex[tid] += 1
        where[tid].add(vpid)
    by_vpid_layers = collections.defaultdict(set)
    for tid, vp in where.items():
        for v in vp:
            by_vpid_layers[v].add(sv.tests[tid].get('l'))
    for tid, vp in where.items():
        if len(vp) > 1:
            viol.append({'clause': 'test_in_two_processes', 'sig': dict(sigbase),
                         'detail': 'test %s executed in processes %s' % (tid, sorted(vp))})
    for v, ls in by_vpid_layers.items():
        if v != 0 and len(ls) > 1:
            viol.append({'clause': 'child_ran_two_layers', 'sig': dict(sigbase),
                         'detail': 'child %s ran tests of layers %s' % (v, sorted(map(str, ls)))})
    if 'j2' in opts or 'j3' in opts:
        if by_vpid_layers.get(0):
            viol.append({'clause': 'parent_ran_tests_under_j', 'sig': dict(sigbase),
                         'detail': 'parent ran %s' % sorted(map(str, by_vpid_layers[0]))})
    if 'x' not in opts and not res.escaped:
        # completeness: every selected test whose closure can be set up runs
        # `repeat` times (in whichever process)
        names = worlds.names_for(n, naming)
        fl = {names[int(k)]: v for k, v in (faults or {}).items()}
        bad_setup = {L for L, f in fl.items() if 'setUp' in f}
        for t in spec['tests']:
            lay = t.get('l')
            if ok == 'layer' and lay != names[owners[-1]]:
                want = 0
            elif lay is not None and (sv.closure[lay] & bad_setup):
                want = 0
            else:
                want = repeat
            if ex[t['n']] != want:
                viol.append({'clause': 'executed_count', 'sig': dict(sigbase),
                             'detail': 'test %s executed %d times, expected %d; resumed=%s'
                                       % (t['n'], ex[t['n']], want, res.resumed)})
    nt = (n >= 2) or bool(faults)
    if viol:
        for v in viol:
            v['detail'] = (v.get('detail') or '') + '\nargv=%s\nspec=%s' % (argv, spec)
    return {'nontrivial': nt, 'violations': viol, 'states': states,
            'transitions': transitions,
            'outcome': (res.failed, len(res.children), bool(res.escaped)),
            'counters': {'runs_with_children': 1 if res.children else 0,
                         'runs_with_fault': 1 if faults else 0,
                         'nie_resumed': 1 if (res.children and 'j2' not in opts and 'j3' not in opts) else 0}}
