"""C09 — nearest layer/level declaration wins; level and unit switches."""
import itertools
import re

from vt import runrt
from vt import worlds
from vt.props import c08

ID = 'C09'
LEVEL = 'exploration'
RULE = ('declaration chains = nested suites of depth <=D around one test, '
        'every node carrying layer in {none, L1, L2, L1 given as a dotted-name '
        'string, a layer whose name the unit-layer regex also matches} and '
        'level in {none,-1,0,1,2,3}, the test declaring through the class or '
        'the instance; plus sibling pairs: one suite holding two tests directly '
        '(second one optionally inside an undeclaring sub-suite), every '
        'declaration on the suite and on both tests; ALL chains of a block are put into one world and the '
        'real discovery+filter pipeline is run with --list-tests for every '
        'option vector (level switches x unit/layer switches); the listed '
        '(test -> layer) map must equal the reference (nearest declaration '
        'outwards, defaults UnitTests/1; level and unit rules as stated). '
        'non-trivial = chain with >=2 declarations of the same kind')
ASSUMPTIONS = [
    '--list-tests shows exactly what a run would select (that agreement is C03\'s business)',
]
BOUND = {
    'quick': 'levels beyond the machine-word range (+-10^40, 2^63 boundaries) on test / one suite x 22 level vectors; depth <=2 (47 + 1128 + 27072 chains) x 30 option vectors (each also given as wrapper defaults and split between defaults and command line); all 2x30x47x47 sibling pairs x 8 option vectors',
    'thorough': 'depth <=2 x all 13x10 option vectors; depth 3 (649728 chains) x 27 vectors',
}
CHUNK = 1
BLOCK = 4000

LAYERS = [None, 'L1', 'L2', 'sL1', 'UX']
LEVELS = [None, -1, 0, 1, 2, 3]
UNIT = 'zope.testrunner.layer.UnitTests'
# a layer whose dotted name is matched by the *regex* 'zope.testrunner.layer.UnitTests'
UXNAME = 'zope_testrunner_layer_UnitTests'
FULL = {None: UNIT, 'L1': 'vtw.tests.L1', 'L2': 'vtw.tests.L2',
        'sL1': 'vtw.tests.L1', 'UX': 'vtw.tests.' + UXNAME}

LVL_OPTS = [[], ['--at-level=-1'], ['--at-level', '0'], ['--at-level', '1'],
            ['--at-level', '2'], ['--at-level', '3'], ['--all'],
            ['--only-level', '0'], ['--only-level', '1'], ['--only-level', '2'],
            ['--all', '--at-level', '1'], ['--only-level', '2', '--all'],
            ['--only-level', '1', '--at-level', '3']]
UNIT_OPTS = [[], ['-u'], ['-f'], ['-u', '-f'], ['-f', '-u'], ['--layer', r'vtw\.tests\.L1$'],
             ['--layer', r'!vtw\.tests\.L1$'], ['--layer', 'UnitTests$'],
             ['-f', '--layer', '!L2'], ['-u', '--layer', 'L1'],
             ['-f', '--layer', '.']]
MIXED = [['-f', '--layer', 'L1', '-u'], ['-u', '--all', '-f'], ['--all', '-f'], ['--only-level', '2', '-u'], ['--at-level', '2', '--layer', 'L2'],
         ['--at-level', '0', '-u', '-f']]


# integer levels are not machine words
import sys as _sys
HUGE = [None, -10 ** 40, -(2 ** 63) - 1, _sys.maxsize, _sys.maxsize + 1, 2 ** 64, 10 ** 40]
HUGE_VECTORS = LVL_OPTS + [['--at-level', str(_sys.maxsize)], ['--at-level', str(_sys.maxsize + 1)],
                           ['--at-level', str(10 ** 40)], ['--only-level', str(10 ** 40)],
                           ['--only-level', str(2 ** 64)], ['--at-level=-%d' % 10 ** 40],
                           ['--only-level=-%d' % 10 ** 40], ['--all', '-f'], ['--at-level', '0', '-u']]

SIB_VECTORS = [[], ['--all'], ['--at-level', '2'], ['--only-level', '2'], ['-u'], ['-f'],
               ['--all', '--layer', 'L2'], ['--at-level=-1', '-f']]


def node_opts():
    return [(l, v) for l in LAYERS for v in LEVELS]


def leaf_opts():
    out = []
    for l, v in node_opts():
        out.append((l, v, 'cls'))
        if (l is not None and l != 'sL1') or v is not None:
            if l != 'sL1':
                out.append((l, v, 'inst'))
    return out


def chains(depth):
    if depth == 'h':
        # levels far outside the machine-word range, on the test and on one
        # enclosing suite
        hn = [(l, v) for l in (None, 'L1') for v in HUGE]
        hl = [(l, v, w) for (l, v) in hn for w in ('cls', 'inst')
              if not (w == 'inst' and l is None and v is None)]
        for leaf in hl:
            yield (), leaf
        for o in hn:
            for leaf in hl:
                yield (o,), leaf
        return
    if depth == 's':
        # siblings: one suite holding two tests directly (the second one
        # optionally wrapped in a suite that declares nothing); what the first
        # declares must not leak to the second
        for outer in node_opts():
            for la in leaf_opts():
                for lb in leaf_opts():
                    for shape in ('tt', 'ts'):
                        yield ('sib', outer, la, lb, shape)
                    # two test OBJECTS of one class: what one instance
                    # declares is not what the other one declares
                    if la[2] == 'inst' or lb[2] == 'inst':
                        if all(x[2] == 'inst' or (x[0] is None and x[1] is None) for x in (la, lb)):
                            yield ('sib', outer, la, lb, 'tc')
        return
    for outer in itertools.product(node_opts(), repeat=depth):
        for leaf in leaf_opts():
            yield outer, leaf


def nblocks(depth):
    if depth in ('s', 'h'):
        n = sum(1 for _ in chains(depth))
        return (n + BLOCK - 1) // BLOCK
    n = (len(node_opts()) ** depth) * len(leaf_opts())
    return (n + BLOCK - 1) // BLOCK


def vectors(tier, depth):
    if tier == 'thorough' and depth <= 2:
        return [a + b for a in LVL_OPTS for b in UNIT_OPTS]
    return [a for a in LVL_OPTS] + [b for b in UNIT_OPTS[1:]] + MIXED


EXEC_MODES = {'seq': ([], 'all'), 'j2': (['-j2'], 'all'), 'f': (['-f'], 'nonunit'), 'layer': (['--layer', 'L2$'], 'L2'),
              'all': (['--all'], 'all'), 'rep': (['--repeat', '2'], 'all'), 'u': (['-u'], 'unit')}


def run_exec(kind, shadow, mode, ish=None):
    """A test must RUN inside the very layer object that was declared nearest
    to it (set up through that object's hooks) - also when its module binds
    the layer's name to something else (a layer nested in a class, made by a
    factory, re-bound later): 'shadow'."""
    from vt import monitors
    layers = [{'n': 'L1', 'b': [], 'k': kind, 'h': list(worlds.HOOKS_SD) + ['testSetUp', 'testTearDown'], 'shadow': shadow},
              {'n': 'L2', 'b': ['L1'], 'k': kind, 'h': list(worlds.HOOKS_SD), 'shadow': shadow},
              {'n': 'L3', 'b': [], 'k': kind, 'h': list(worlds.HOOKS_SD), 'shadow': shadow}]
    tests = [{'n': 'a', 'l': 'L1', 's': 'pass'}, {'n': 'b', 's': 'pass', 'li': {'l': 'L2', 'lv': None}},
             {'n': 'c', 's': 'pass'}, {'n': 'd', 's': 'pass'}, {'n': 'e', 'l': 'L3', 's': 'pass'}, {'n': 'u', 's': 'pass'}]
    tree = [{'c': [{'t': 'a'}, {'t': 'b'}, {'l': 'L2', 'c': [{'t': 'c'}, {'l': 'L1', 'c': [{'t': 'd'}]}]}, {'t': 'e'}, {'t': 'u'}]}]
    want_layer = {'a': 'L1', 'b': 'L2', 'c': 'L2', 'd': 'L1', 'e': 'L3', 'u': None}
    if ish:
        # layer objects that are falsy / compared by value
        for L in layers:
            L['ish'] = ish
    spec = {'layers': layers, 'tests': tests, 'tree': tree}
    argv, sel = EXEC_MODES[mode]
    res = runrt.run_world(spec, list(argv))
    sig = {'argv': 'exec ' + ' '.join(argv), 'shadow': shadow, 'kind': kind}
    viol = []

    def V(c, d):
        viol.append({'clause': c, 'sig': sig, 'detail': '%s\nargv=%s spec=%s' % (d, argv, spec)})
    if res.escaped:
        V('run_aborted', res.escaped_tb)
        return viol
    # the layers that are up (by their own hooks) while each test body runs
    up = {}
    seen = {}
    for ev in res.trace:
        if ev[1] == 'L' and ev[3] in ('setUp', 'tearDown'):
            if ev[4] == '!' :
                V('decoy_or_failing_hook', ev)
            elif ev[4] == '<':
                st = up.setdefault(ev[0], [])
                if ev[3] == 'setUp':
                    st.append(ev[2])
                elif ev[2] in st:
                    st.remove(ev[2])
        elif ev[1] == 't' and ev[3] == 'body':
            seen.setdefault(ev[2], []).append(sorted(up.get(ev[0], [])))
    closure = {'L1': ['L1'], 'L2': ['L1', 'L2'], 'L3': ['L3'], None: []}
    for tid, lay in want_layer.items():
        selected = (sel == 'all' or (sel == 'nonunit' and lay is not None) or (sel == 'unit' and lay is None) or sel == lay)
        times = (2 if mode == 'rep' else 1) if selected else 0
        got = seen.get(tid, [])
        if len(got) != times:
            V('executed_count', 'test %s (declared layer %s) ran %d times, expected %d' % (tid, lay, len(got), times))
        for g in got:
            if g != closure[lay]:
                V('ran_in_wrong_layer', 'test %s is declared nearest for layer %s but ran with %s set up' % (tid, lay, g))
    return viol


def cases(tier, seed):
    for kind in ('c', 'i'):
        for shadow in (False, True):
            for mode in EXEC_MODES:
                yield ['exec', [kind, shadow], mode]
    for ish in ('len0', 'bool0', 'eq'):
        for mode in EXEC_MODES:
            yield ['exec', ['i', False, ish], mode]
    # modules discovered on disk, one of them without test_suite() and with
    # ordinary globals called `layer` / `level` (shared with C03)
    for fi in (0, 1):
        yield ['disk', 'one', fi]
    depths = [0, 1, 2, 's', 'h'] if tier == 'quick' else [0, 1, 2, 's', 'h', 3]
    for d in depths:
        vs = HUGE_VECTORS if d == 'h' else (vectors(tier, d) if d != 's' else SIB_VECTORS)
        for b in range(nblocks(d)):
            for vi in worlds.rot(range(len(vs)), seed):
                yield [d, b, vs[vi]]


def setup_worker():
    runrt._mods()


def build_block(depth, b):
    it = itertools.islice(chains(depth), b * BLOCK, (b + 1) * BLOCK)
    tests = []
    tree = []
    info = {}
    def mk_test(tid, leaf):
        l, v, where = leaf
        t = {'n': tid, 's': 'pass'}
        lay = None if l is None else ('L1' if l == 'sL1' else (UXNAME if l == 'UX' else l))
        if where == 'cls':
            if lay is not None:
                t['l'] = lay
                if l == 'sL1':
                    t['lstr'] = True
            if v is not None:
                t['lv'] = v
        else:
            t['li'] = {'l': lay, 'lv': v}
        return t

    def ref(tid, decl):
        rl = next((x[0] for x in decl if x[0] is not None), None)
        rv = next((x[1] for x in decl if x[1] is not None), 1)
        info[tid] = (FULL[rl], rv,
                     sum(1 for x in decl if x[0] is not None) >= 2 or
                     sum(1 for x in decl if x[1] is not None) >= 2)
    for i, item in enumerate(it):
        if item[0] == 'sib':
            _, (ol, ov), la, lb, shape = item
            ta, tb = 'k%da' % i, 'k%db' % i
            tests.append(mk_test(ta, la))
            tests.append(mk_test(tb, lb))
            if shape == 'tc':
                tests[-1]['shcls'] = ta
            second = {'t': tb} if shape in ('tt', 'tc') else {'c': [{'t': tb}]}
            n2 = {'c': [{'t': ta}, second]}
            if ol is not None:
                n2['l'] = 'L1' if ol == 'sL1' else (UXNAME if ol == 'UX' else ol)
                if ol == 'sL1':
                    n2['lstr'] = True
            if ov is not None:
                n2['lv'] = ov
            tree.append(n2)
            ref(ta, [(la[0], la[1]), (ol, ov)])
            ref(tb, [(lb[0], lb[1]), (ol, ov)])
            # a sibling pair is non-trivial when the first declares something
            # the second does not
            info[tb] = info[tb][:2] + ((la[0] is not None and lb[0] is None) or (la[1] is not None and lb[1] is None),)
            continue
        outer, leaf = item
        tid = 'k%d' % i
        l, v, where = leaf
        tests.append(mk_test(tid, leaf))
        node = {'t': tid}
        for (ol, ov) in reversed(outer):
            n2 = {'c': [node]}
            if ol is not None:
                n2['l'] = 'L1' if ol == 'sL1' else (UXNAME if ol == 'UX' else ol)
                if ol == 'sL1':
                    n2['lstr'] = True
            if ov is not None:
                n2['lv'] = ov
            node = n2
        tree.append(node)
        # reference: nearest declaration, test first, then innermost suite
        decl = [(l, v)] + list(reversed(outer))
        rl = next((x[0] for x in decl if x[0] is not None), None)
        rv = next((x[1] for x in decl if x[1] is not None), 1)
        info[tid] = (FULL[rl], rv,
                     sum(1 for x in decl if x[0] is not None) >= 2 or
                     sum(1 for x in decl if x[1] is not None) >= 2)
    spec = {
        'layers': [{'n': 'L1', 'b': [], 'k': 'c', 'h': []},
                   {'n': 'L2', 'b': [], 'k': 'c', 'h': []},
                   {'n': UXNAME, 'b': [], 'k': 'c', 'h': []}],
        'tests': tests, 'tree': tree}
    return spec, info


def expected(info, argv):
    at, only, allv, u, f = 1, None, False, False, False
    layer_pats = []
    i = 0
    while i < len(argv):
        a = argv[i]
        if a.startswith('--at-level='):
            at = int(a.split('=')[1])
            i += 1
        elif a == '--at-level':
            at = int(argv[i + 1])
            i += 2
        elif a == '--only-level':
            only = int(argv[i + 1])
            i += 2
        elif a.startswith('--only-level='):
            only = int(a.split('=')[1])
            i += 1
        elif a == '--all':
            allv = True
            i += 1
        elif a == '-u':
            u = True
            i += 1
        elif a == '-f':
            f = True
            i += 1
        elif a == '--layer':
            layer_pats.append(argv[i + 1])
            i += 2
        else:
            raise ValueError(a)
    if u and f:
        u = f = False
    out = {}
    for tid, (lay, lvl, _) in info.items():
        if only is not None:
            ok = (lvl == only)
        else:
            ok = allv or at <= 0 or lvl <= at
        if not ok:
            continue
        if u:
            if lay != UNIT:
                continue
        else:
            if f and lay == UNIT:
                continue
            if layer_pats and not c08.spec_accept(layer_pats, lay):
                continue
        out[tid] = lay
    return out


LIST_RE = re.compile(r'^Listing (\S+) tests:$')
TEST_RE = re.compile(r'^  test_(\w+) \(')
TID_RE = re.compile(r'^k(\d+)')


def _listing(text):
    got = {}
    cur = None
    for ln in text.splitlines():
        m = LIST_RE.match(ln)
        if m:
            cur = m.group(1)
            continue
        m = TEST_RE.match(ln)
        if m and cur:
            got[m.group(1)] = cur
    return got


def run_case(case):
    if case[0] == 'disk':
        from vt.props import c03
        viol = c03.run_disk_case(case[1], case[2])
        for v in viol:
            v['sig'] = {'argv': 'disk', 'ux': False}
        return {'evals': 2, 'nontrivial': 2, 'violations': viol, 'outcome': 'disk'}
    if case[0] == 'exec':
        viol = run_exec(case[1][0], case[1][1], case[2], case[1][2] if len(case[1]) > 2 else None)
        return {'evals': 1, 'nontrivial': 1, 'violations': viol, 'outcome': 'exec'}
    depth, b, argv = case
    spec, info = build_block(depth, b)
    res = runrt.run_world(spec, ['--list-tests'] + list(argv), probe=False)
    viol = []
    sig = {'argv': ' '.join(argv)}
    if res.escaped:
        viol.append({'clause': 'run_aborted', 'sig': sig, 'detail': res.escaped_tb})
        return {'evals': len(info), 'nontrivial': 0, 'violations': viol}
    got = {}
    cur = None
    dup = []
    for ln in res.text.splitlines():
        m = LIST_RE.match(ln)
        if m:
            cur = m.group(1)
            continue
        m = TEST_RE.match(ln)
        if m and cur:
            if m.group(1) in got:
                dup.append(m.group(1))
            got[m.group(1)] = cur
    want = expected(info, argv)
    for tid in dup[:3]:
        viol.append({'clause': 'listed_twice', 'sig': sig, 'detail': tid})
    n = 0
    for tid in sorted(set(got) | set(want)):
        if got.get(tid) != want.get(tid):
            n += 1
            if n > 6:
                break
            k = int(TID_RE.match(tid).group(1))
            ch = list(itertools.islice(chains(depth), b * BLOCK + k, b * BLOCK + k + 1))[0]
            if tid not in got:
                clause = 'eligible_test_missing'
            elif tid not in want:
                clause = 'ineligible_test_listed'
            else:
                clause = 'wrong_layer'
            viol.append({'clause': clause, 'sig': dict(sig, ux=(info[tid][0].endswith(UXNAME))),
                         'detail': 'chain (outer suites outermost-first (layer, level), leaf (layer, level, where)) = %s: reference layer=%s level=%s; listed under %s, expected %s; argv=%s'
                                   % (ch, info[tid][0], info[tid][1], got.get(tid), want.get(tid), argv)})
    if res.trace:
        viol.append({'clause': 'list_mode_ran_code', 'sig': sig, 'detail': str(res.trace[:3])})
    if argv and b == 0:
        # the same options given as the wrapper script's DEFAULTS select the
        # same tests; and defaults are overridden by the command line
        r2 = runrt.run_world(spec, ['--list-tests'], probe=False, defaults=list(argv))
        r3 = runrt.run_world(spec, ['--list-tests'] + list(argv), probe=False,
                             defaults=['--at-level', '1', '--layer', '.'] if '--layer' not in argv and '--only-level' not in argv and '--all' not in argv and not any(a.startswith('--at-level') for a in argv) else [])
        extra = []
        # the vector split between wrapper defaults and command line, at every
        # option boundary
        toks = list(argv)
        cuts = [i for i in range(1, len(toks)) if toks[i].startswith('-')]
        for cpos in cuts:
            rs = runrt.run_world(spec, ['--list-tests'] + toks[cpos:], probe=False, defaults=toks[:cpos])
            extra.append((rs, 'split: defaults %s + command line %s' % (toks[:cpos], toks[cpos:])))
        for rr, what in [(r2, 'as defaults'), (r3, 'over neutral defaults')] + extra:
            if rr.escaped:
                viol.append({'clause': 'run_aborted', 'sig': dict(sig, via=what), 'detail': rr.escaped_tb})
            elif _listing(rr.text) != got:
                viol.append({'clause': 'defaults_and_arguments_disagree', 'sig': dict(sig, via=what),
                             'detail': 'options %s %s select a different set than on the command line' % (argv, what)})
    return {'evals': len(info), 'nontrivial': sum(1 for v in info.values() if v[2]),
            'violations': viol, 'outcome': (len(got) > 0)}
