"""C20 — DiGraph.sccs(): every digraph up to n nodes, against a
transitive-closure oracle."""
import itertools

ID = 'C20'
LEVEL = 'exploration'
RULE = ('every labelled digraph with self-loops on n nodes (adjacency matrix = '
        'n*n-bit integer) x node encoding (small ints / ints colliding in a '
        'set of 8 slots / identity-keyed objects through the default id() '
        'transform) x every assignment of encoded values to insertion positions '
        '(all n! for n<=4) x sink handling (add_neighbors called for every node '
        '| only for nodes with out-edges) x (no | one edge per node to an '
        'unknown node); a case is non-trivial when the graph has >=1 edge; '
        'block cases contain distinct graphs by construction')
ASSUMPTIONS = [
    'oracle = mutual reachability from a Warshall closure written independently',
    'graphs beyond the node bound are not explored (no random graphs: the '
    'technique is exhaustive enumeration only)',
]
BOUND = {
    'quick': 'all digraphs n<=4 (2+16+512+65536) x 3 encodings x 2 sink modes x '
             '2 unknown modes; all n! value orders for n<=3, 2 orders for n=4',
    'thorough': 'quick bound with all 24 value orders for n=4, plus every '
                'digraph on 5 nodes (2^25) in int encoding, lazy+eager sinks',
}
CHUNK = 4
BLOCK = 4096

ENCODINGS = ('int', 'collide', 'ident')


def setup_worker():
    global DiGraph
    from zope.testrunner.digraph import DiGraph


def cases(tier, seed):
    for n in (1, 2, 3, 4):
        perms = list(itertools.permutations(range(n)))
        if n == 4 and tier == 'quick':
            perms = [perms[0], perms[-1]]
        total = 1 << (n * n)
        for enc in ENCODINGS:
            for perm in perms:
                if enc == 'ident' and perm != perms[0]:
                    continue  # object ids are not ours to order
                for lazy in (True, False):
                    for unknown in (False, True):
                        for start in range(0, total, BLOCK):
                            yield [n, start, min(total, start + BLOCK), enc,
                                   list(perm), lazy, unknown]
    if tier == 'thorough':
        n = 5
        total = 1 << 25
        for lazy in (True, False):
            for start in range(0, total, 1 << 15):
                yield [n, start, start + (1 << 15), 'int', [0, 1, 2, 3, 4],
                       lazy, False]


def expected(n, bits):
    """SCCs by mutual reachability.  reach[i] is a bitmask."""
    adj = [(bits >> (i * n)) & ((1 << n) - 1) for i in range(n)]
    reach = [adj[i] | (1 << i) for i in range(n)]
    for k in range(n):
        rk = reach[k]
        bk = 1 << k
        for i in range(n):
            if reach[i] & bk:
                reach[i] |= rk
    comps = set()
    for i in range(n):
        m = 0
        for j in range(n):
            if (reach[i] >> j) & 1 and (reach[j] >> i) & 1:
                m |= 1 << j
        comps.add(m)
    cyc = set()
    for m in comps:
        if m & (m - 1):
            cyc.add(m)
        else:
            i = m.bit_length() - 1
            if (adj[i] >> i) & 1:
                cyc.add(m)
    return comps, cyc, adj


class _N:
    __slots__ = ('i',)

    def __init__(self, i):
        self.i = i


def run_graph(n, bits, enc, perm, lazy, unknown):
    comps, cyc, adj = expected(n, bits)
    if enc == 'int':
        vals = [perm[i] for i in range(n)]
        mh = None
        unk = 99
    elif enc == 'collide':
        vals = [8 * perm[i] for i in range(n)]
        mh = None
        unk = 64
    else:
        vals = [_N(i) for i in range(n)]
        mh = id
        unk = _N(99)
    back = {(v if mh is None else id(v)): i for i, v in enumerate(vals)}
    viol = []
    try:
        g = DiGraph(vals, make_hashable=mh) if mh is None else DiGraph(vals)
        for i in range(n):
            nb = [vals[j] for j in range(n) if (adj[i] >> j) & 1]
            if unknown:
                nb.append(unk)
            if nb or not lazy:
                g.add_neighbors(vals[i], nb)
        for trivial, want in ((True, comps), (False, cyc)):
            got = list(g.sccs(trivial)) if trivial else list(g.sccs())
            masks = []
            flat = []
            for c in got:
                m = 0
                for x in c:
                    k = back[x if mh is None else id(x)]
                    m |= 1 << k
                    flat.append(k)
                masks.append(m)
            if len(flat) != len(set(flat)):
                viol.append(('node_repeated', trivial, masks))
            elif len(masks) != len(set(masks)):
                viol.append(('component_repeated', trivial, masks))
            elif set(masks) != want:
                viol.append(('wrong_components', trivial, masks))
            elif trivial and sorted(flat) != list(range(n)):
                viol.append(('not_a_partition', trivial, masks))
    except Exception as e:  # noqa
        viol.append(('exception', type(e).__name__, repr(e)))
    return viol


def run_case(case):
    n, start, stop, enc, perm, lazy, unknown = case
    violations = []
    nt = 0
    for bits in range(start, stop):
        if bits:
            nt += 1
        vs = run_graph(n, bits, enc, perm, lazy, unknown)
        for v in vs:
            if len(violations) < 5:
                violations.append({
                    'clause': v[0],
                    'sig': {'lazy_sink': lazy, 'trivial': v[1]}
                    if v[0] != 'exception' else {'lazy_sink': lazy, 'exc': v[1]},
                    'detail': 'n=%d adjacency bits=%s enc=%s perm=%s lazy=%s '
                              'unknown=%s -> %r' % (n, bin(bits), enc, perm,
                                                    lazy, unknown, v),
                    'case': [n, bits, bits + 1, enc, perm, lazy, unknown],
                })
    return {'evals': stop - start, 'nontrivial': nt, 'violations': violations,
            'outcome': len(violations) > 0}
