"""C20 — DiGraph.sccs(): every digraph up to n nodes, against a
transitive-closure oracle."""
import itertools

ID = 'C20'
LEVEL = 'exploration'
RULE = ('every labelled digraph with self-loops on n nodes (adjacency matrix = '
        'n*n-bit integer) x node encoding (small ints / ints colliding in a '
        'set of 8 slots / identity-keyed objects that are == to one another (empty lists, value objects) / '
        'set of 8 slots / identity-keyed objects through the default id() '
        'transform / tuples / a mix of int, str, tuple, frozenset, float) x how the edges are handed over (one list per node | a set | one shared set object for several nodes plus later calls | two calls per node | one-shot iterators | strict mode ignore_unknown=False with lists, sets, generators, map objects) x every assignment of encoded values to insertion positions '
        '(all n! for n<=4) x sink handling (add_neighbors called for every node '
        '| only for nodes with out-edges) x (no | one edge per node to an '
        'unknown node); a case is non-trivial when the graph has >=1 edge; '
        'block cases contain distinct graphs by construction')
ASSUMPTIONS = [
    'oracle = mutual reachability from a Warshall closure written independently',
    'beyond the node bound only six structured graph families at three sizes each are run (300 .. 70 000 nodes: above the small-int cache, the recursion limit and 65536-entry lists); no random graphs',
]
BOUND = {
    'quick': 'all digraphs n<=4 (2+16+512+65536) x 3 encodings x 2 sink modes x '
             '2 unknown modes; all n! value orders for n<=3, 2 orders for n=4',
    'thorough': 'quick bound with all 24 value orders for n=4, plus every '
                'digraph on 5 nodes (2^25) in int encoding, lazy+eager sinks',
}
CHUNK = 4
BLOCK = 4096

ENCODINGS = ('int', 'collide', 'ident', 'tuple', 'mixed', 'selfneq', 'ident_eq')
# how the edges are handed to add_neighbors
BUILDS = ('list', 'set', 'shared', 'steps', 'empty_first', 'unknown_first', 'gen', 'gen_unknown',
          # ignore_unknown=False (every neighbour is known): lists, sets, one-shot iterators
          'list_strict', 'set_strict', 'gen_strict', 'map_strict',
          # nodes announced more than once / step by step while edges are
          # already being added (incremental construction of an object graph)
          'reannounce', 'incremental')


def setup_worker():
    global DiGraph
    from zope.testrunner.digraph import DiGraph


def cases(tier, seed):
    for n in (1, 2, 3, 4):
        perms = list(itertools.permutations(range(n)))
        if n == 4 and tier == 'quick':
            perms = [perms[0], perms[-1]]
        total = 1 << (n * n)
        for enc in ENCODINGS:
            for perm in perms:
                if enc == 'ident' and perm != perms[0]:
                    continue  # object ids are not ours to order
                if enc in ('tuple', 'mixed', 'selfneq', 'ident_eq') and perm != perms[0]:
                    continue
                for lazy in (True, False):
                    for unknown in (False, True):
                        for start in range(0, total, BLOCK):
                            yield [n, start, min(total, start + BLOCK), enc,
                                   list(perm), lazy, unknown]
                # other ways of building the same graph (hashable nodes)
                if enc in ('int', 'tuple', 'ident', 'ident_eq') and perm == perms[0]:
                    for build in BUILDS[1:]:
                        if enc == 'ident_eq' and build in ('set', 'shared'):
                            continue          # unhashable nodes cannot be put into a set by the caller
                        for start in range(0, total, BLOCK):
                            yield [n, start, min(total, start + BLOCK), enc,
                                   list(perm), True, False, build]
    # scale families: the same oracle on graphs that are not small (structured
    # families, every member for the listed sizes; thresholds such as 256 small
    # ints, 1000 recursion frames or 65536 list entries lie below them)
    for fam in SCALE_FAMILIES:
        for size in ((300, 1100, 2500) if fam != 'fan' else (300, 70000)):
            for enc in ('int', 'ident'):
                if size > 50000 and enc == 'ident' and tier == 'quick':
                    continue
                yield ['scale', fam, size, enc]
    if tier == 'thorough':
        n = 5
        total = 1 << 25
        for lazy in (True, False):
            for start in range(0, total, 1 << 15):
                yield [n, start, start + (1 << 15), 'int', [0, 1, 2, 3, 4],
                       lazy, False]


def expected(n, bits):
    """SCCs by mutual reachability.  reach[i] is a bitmask."""
    adj = [(bits >> (i * n)) & ((1 << n) - 1) for i in range(n)]
    reach = [adj[i] | (1 << i) for i in range(n)]
    for k in range(n):
        rk = reach[k]
        bk = 1 << k
        for i in range(n):
            if reach[i] & bk:
                reach[i] |= rk
    comps = set()
    for i in range(n):
        m = 0
        for j in range(n):
            if (reach[i] >> j) & 1 and (reach[j] >> i) & 1:
                m |= 1 << j
        comps.add(m)
    cyc = set()
    for m in comps:
        if m & (m - 1):
            cyc.add(m)
        else:
            i = m.bit_length() - 1
            if (adj[i] >> i) & 1:
                cyc.add(m)
    return comps, cyc, adj


class _N:
    __slots__ = ('i',)

    def __init__(self, i):
        self.i = i


class _Expr:
    """A hashable node whose == does not return True for itself (an ORM
    column, a symbolic expression)."""

    def __init__(self, i):
        self.i = i

    def __eq__(self, other):
        return False

    def __hash__(self):
        return self.i % 2          # (and the hashes collide)


class _AlwaysEq:
    """An unhashable value object that compares equal to everything (the
    default id() keying is made for such nodes)."""
    __hash__ = None

    def __eq__(self, other):
        return True

    def __ne__(self, other):
        return False


MIXED = [0, 'a', (1,), frozenset({2}), 3.5]


def run_graph(n, bits, enc, perm, lazy, unknown, build='list'):
    comps, cyc, adj = expected(n, bits)
    if enc == 'int':
        vals = [perm[i] for i in range(n)]
        mh = None
        unk = 99
    elif enc == 'collide':
        vals = [8 * perm[i] for i in range(n)]
        mh = None
        unk = 64
    elif enc == 'tuple':
        # nodes that are tuples themselves (dotted-name parts, coordinates)
        vals = [(perm[i],) if i % 2 == 0 else (perm[i], 'x') for i in range(n)]
        mh = None
        unk = (99,)
    elif enc == 'selfneq':
        # hashable nodes that are not equal to themselves: NaN floats, a
        # decimal NaN, objects whose __eq__ never says True (dicts and sets
        # find them by identity)
        import decimal
        vals = [float('nan'), _Expr(1), decimal.Decimal('NaN'), float('nan')][:n]
        mh = None
        unk = float('nan')
    elif enc == 'mixed':
        vals = [MIXED[perm[i]] for i in range(n)]
        mh = None
        unk = 'unknown' 
    elif enc == 'ident_eq':
        # identity-keyed nodes that are == to one another (empty lists, value
        # objects): equal is not identical
        vals = [[] if i % 2 == 0 else _AlwaysEq() for i in range(n)]
        mh = id
        unk = []
    else:
        vals = [_N(i) for i in range(n)]
        mh = id
        unk = _N(99)
    back = {(v if mh is None else id(v)): i for i, v in enumerate(vals)}
    viol = []
    try:
        if build == 'incremental':
            g = DiGraph(make_hashable=mh) if mh is None else DiGraph()
        elif build in ('gen', 'gen_unknown'):
            # the documented argument type is "iterator": one-shot generators
            g = DiGraph((v for v in vals), make_hashable=mh) if mh is None else DiGraph(v for v in vals)
        else:
            g = DiGraph(vals, make_hashable=mh) if mh is None else DiGraph(vals)
        nbs = [[vals[j] for j in range(n) if (adj[i] >> j) & 1] for i in range(n)]
        if build == 'list':
            for i in range(n):
                nb = nbs[i]
                if unknown:
                    nb.append(unk)
                if nb or not lazy:
                    g.add_neighbors(vals[i], nb)
        elif build == 'set':
            for i in range(n):
                if nbs[i]:
                    g.add_neighbors(vals[i], set(nbs[i]))
        elif build in ('empty_first', 'unknown_first'):
            # a node's first call contributes no known neighbour; its edges
            # follow one call at a time
            for i in range(n):
                g.add_neighbors(vals[i], [] if build == 'empty_first' else [unk])
            for i in range(n):
                for x in nbs[i]:
                    g.add_neighbors(vals[i], [x])
        elif build in ('gen', 'gen_unknown'):
            for i in range(n):
                if nbs[i] or build == 'gen_unknown':
                    g.add_neighbors(vals[i], itertools.chain((x for x in nbs[i]),
                                                             iter([unk] if build == 'gen_unknown' else [])))
        elif build == 'reannounce':
            for i in range(n):
                if nbs[i]:
                    g.add_neighbors(vals[i], nbs[i])
                # the node (and what it points to) is announced again later
                g.add_nodes([vals[i]] + nbs[i])
            g.add_nodes(vals)
        elif build == 'incremental':
            # add_nodes([obj] + referents); add_neighbors(obj, referents) per object
            for i in range(n):
                g.add_nodes([vals[i]] + nbs[i])
                if nbs[i]:
                    g.add_neighbors(vals[i], nbs[i], ignore_unknown=False)
        elif build.endswith('_strict'):
            for i in range(n):
                if nbs[i]:
                    nb = {'list_strict': lambda x: list(x), 'set_strict': lambda x: x if mh is id else set(x),
                          'gen_strict': lambda x: (y for y in x), 'map_strict': lambda x: map(lambda y: y, x)}[build](nbs[i])
                    g.add_neighbors(vals[i], nb, ignore_unknown=False)
        elif build == 'steps':
            # the edges of a node arrive in two calls
            for rnd in (0, 1):
                for i in range(n):
                    part = nbs[i][rnd::2]
                    if part:
                        g.add_neighbors(vals[i], part if rnd else tuple(part))
        else:
            # 'shared': the caller passes ONE set object (what all nodes with
            # out-edges have in common) for several nodes, then each node's
            # remaining edges in a later call
            have = [i for i in range(n) if nbs[i]]
            common = set(nbs[have[0]]) if have else set()
            for i in have[1:]:
                common &= set(nbs[i])
            shared = set(common)
            if shared:
                for i in have:
                    g.add_neighbors(vals[i], shared)
            for i in have:
                rest = set(nbs[i]) - common
                if rest:
                    g.add_neighbors(vals[i], rest)
        for trivial, want in ((True, comps), (False, cyc)):
            got = list(g.sccs(trivial)) if trivial else list(g.sccs())
            masks = []
            flat = []
            for c in got:
                m = 0
                for x in c:
                    k = back[x if mh is None else id(x)]
                    m |= 1 << k
                    flat.append(k)
                masks.append(m)
            if len(flat) != len(set(flat)):
                viol.append(('node_repeated', trivial, masks))
            elif len(masks) != len(set(masks)):
                viol.append(('component_repeated', trivial, masks))
            elif set(masks) != want:
                viol.append(('wrong_components', trivial, masks))
            elif trivial and sorted(flat) != list(range(n)):
                viol.append(('not_a_partition', trivial, masks))
    except Exception as e:  # noqa
        viol.append(('exception', type(e).__name__, repr(e)))
    return viol


SCALE_FAMILIES = ('ring', 'chain', 'rings_chained', 'ladder', 'fan', 'binary_back')


def scale_graph(fam, n):
    """adjacency lists of a structured graph on n nodes"""
    adj = [[] for _ in range(n)]
    if fam == 'ring':
        for i in range(n):
            adj[i].append((i + 1) % n)
    elif fam == 'chain':
        for i in range(n - 1):
            adj[i].append(i + 1)
        adj[n // 2].append(n // 2)            # one self-loop in the middle
    elif fam == 'rings_chained':
        # rings of 7 nodes, each linked to the next ring
        for i in range(n):
            base = i - i % 7
            nxt = base + (i % 7 + 1) % 7
            if nxt < n:
                adj[i].append(nxt)
            if i % 7 == 3 and i + 7 < n:
                adj[i].append(i + 7)
    elif fam == 'ladder':
        # two rails with rungs in both directions every third node
        h = n // 2
        for i in range(h - 1):
            adj[i].append(i + 1)
            adj[h + i + 1].append(h + i)
        for i in range(0, h, 3):
            adj[i].append(h + i)
            adj[h + i].append(i)
    elif fam == 'fan':
        # 0 -> 1, 1 -> 0 and 1 -> a great many leaves
        adj[0].append(1)
        adj[1].append(0)
        adj[1].extend(range(2, n))
    elif fam == 'binary_back':
        # a binary tree whose leaves point back to the root
        for i in range(n):
            for c in (2 * i + 1, 2 * i + 2):
                if c < n:
                    adj[i].append(c)
            if 2 * i + 1 >= n and i % 5 == 0:
                adj[i].append(0)
    return adj


def scc_oracle(adj):
    """Kosaraju, iterative - independent of the implementation under test."""
    n = len(adj)
    order, seen = [], [False] * n
    for s0 in range(n):
        if seen[s0]:
            continue
        st = [(s0, 0)]
        seen[s0] = True
        while st:
            v, i = st.pop()
            if i < len(adj[v]):
                st.append((v, i + 1))
                w = adj[v][i]
                if not seen[w]:
                    seen[w] = True
                    st.append((w, 0))
            else:
                order.append(v)
    radj = [[] for _ in range(n)]
    for v in range(n):
        for w in adj[v]:
            radj[w].append(v)
    comp = [-1] * n
    c = 0
    for s0 in reversed(order):
        if comp[s0] >= 0:
            continue
        st = [s0]
        comp[s0] = c
        while st:
            v = st.pop()
            for w in radj[v]:
                if comp[w] < 0:
                    comp[w] = c
                    st.append(w)
        c += 1
    groups = {}
    for v in range(n):
        groups.setdefault(comp[v], []).append(v)
    comps = {frozenset(g) for g in groups.values()}
    cyc = {g for g in comps if len(g) > 1 or next(iter(g)) in adj[next(iter(g))]}
    return comps, cyc


def run_scale(fam, n, enc):
    adj = scale_graph(fam, n)
    comps, cyc = scc_oracle(adj)
    if enc == 'int':
        vals = list(range(n))
        g = DiGraph(vals, make_hashable=None)
        back = {v: v for v in vals}
        key = lambda x: x
    else:
        vals = [_N(i) for i in range(n)]
        g = DiGraph(vals)
        key = lambda x: x.i
    viol = []
    try:
        for i in range(n):
            if adj[i]:
                g.add_neighbors(vals[i], [vals[j] for j in adj[i]])
        for trivial, want in ((True, comps), (False, cyc)):
            got = list(g.sccs(trivial)) if trivial else list(g.sccs())
            gs = [frozenset(key(x) for x in c) for c in got]
            flat = [key(x) for c in got for x in c]
            if len(flat) != len(set(flat)):
                viol.append(('node_repeated', trivial, '%d nodes yielded, %d distinct' % (len(flat), len(set(flat)))))
            elif set(gs) != want or len(gs) != len(want):
                viol.append(('wrong_components', trivial, '%d components, oracle %d; e.g. missing %s' % (len(gs), len(want), [sorted(x)[:6] for x in list(want - set(gs))[:2]])))
    except Exception as e:  # noqa
        viol.append(('exception', type(e).__name__, repr(e)[:300]))
    return viol


def run_case(case):
    if case[0] == 'scale':
        _, fam, n, enc = case
        vs = run_scale(fam, n, enc)
        return {'evals': 1, 'nontrivial': 1, 'outcome': 'scale',
                'violations': [{'clause': v[0],
                                'sig': {'lazy_sink': True, 'trivial': v[1]} if v[0] != 'exception' else {'lazy_sink': True, 'exc': v[1]},
                                'detail': 'scale family %s, %d nodes, %s nodes -> %r' % (fam, n, enc, v)} for v in vs]}
    n, start, stop, enc, perm, lazy, unknown = case[:7]
    build = case[7] if len(case) > 7 else 'list'
    violations = []
    nt = 0
    for bits in range(start, stop):
        if bits:
            nt += 1
        vs = run_graph(n, bits, enc, perm, lazy, unknown, build)
        for v in vs:
            if len(violations) < 5:
                violations.append({
                    'clause': v[0],
                    'sig': {'lazy_sink': lazy, 'trivial': v[1]}
                    if v[0] != 'exception' else {'lazy_sink': lazy, 'exc': v[1]},
                    'detail': 'n=%d adjacency bits=%s enc=%s perm=%s lazy=%s '
                              'unknown=%s build=%s -> %r' % (n, bin(bits), enc, perm,
                                                             lazy, unknown, build, v),
                    'case': [n, bits, bits + 1, enc, perm, lazy, unknown, build],
                })
    return {'evals': stop - start, 'nontrivial': nt, 'violations': violations,
            'outcome': len(violations) > 0}
