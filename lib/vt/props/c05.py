"""C05 — per-test layer hooks bracket every test."""
import itertools

from vt import monitors
from vt import runrt
from vt import worlds

ID = 'C05'
LEVEL = 'exploration'
RULE = ('worlds = every DAG on <=n layers x {class, instance} kinds x every '
        'subset of layers defining testSetUp+testTearDown (plus one-sided '
        'variants in thorough) x every sequence of <=L tests over the outcome '
        'alphabet in the most derived layer (one passing test in every other '
        'layer) x --repeat {1,2}; run on the real Runner; per test bracket the '
        'sequence of testSetUp/testTearDown events is compared with the '
        'hook-bearing layers of the closure; non-trivial = >=1 hook-bearing '
        'layer in the stack and >=1 non-pass outcome or >=2 layers')
ASSUMPTIONS = [
    'a decorator/class-skipped test does not "start" on this interpreter '
    '(unittest 3.12.1 never calls startTest for it): for such a test the '
    'check demands balance only (either no hook calls or a full mirrored pair)',
    'CPython 3.12.1 only',
]
BOUND = {
    'quick': 'all multiple-inheritance DAGs n=4 x 24 namings; one-sided hook sets for n<=2; all DAGs n<=3 x kinds x all 2^n hook subsets x every single outcome x repeat{1,2}; all DAGs n<=2 x kinds x hook subsets x all outcome sequences of length 2 x repeat{1,2}',
    'thorough': 'quick + all multiple-inheritance DAGs n=5 x 120 namings + length-3 sequences for n<=2, length-2 for n=3, one-sided hook sets (testSetUp only / testTearDown only), and -j2 children',
}
CHUNK = 128

KINDS = ['pass', 'fail', 'error', 'skip_dec', 'skip_cls', 'skip_setup',
         'skip_body', 'xfail', 'uxs', 'sub:1,0,1', 'sub:1,1,0', 'setup_err',
         'teardown_err', 'body+teardown', 'cleanup_err', 'sysexit',
         'sub_skip', 'redir_sub_fail', 'swap_fail', 'rmcwd', 'chdir']


def _o_filter(case):
    return case[0] <= 2 and len(case) == 8 and case[4] == 'both' and case[7] in ('', 'x', 'D')


ENV_PASSES = [{'name': 'python -O', 'argv': ['-O'], 'env': {}, 'filter': _o_filter}]


def _graphs(nmax):
    for n in range(1, nmax + 1):
        for g in worlds.dags(n):
            for kind in ['i'] + (['c'] if worlds.c3_ok(g) else []):
                yield n, g, kind


def cases(tier, seed):
    kinds = worlds.rot(KINDS, seed)
    seqplan = [(3, 1), (2, 2)] if tier == 'quick' else [(3, 2), (2, 3)]
    done = set()
    for nmax, L in seqplan:
        for n, g, kind in _graphs(nmax):
            for hm in range(1 << n):
                for ln in range(1, L + 1):
                    for seq in itertools.product(kinds, repeat=ln):
                        for rep in (1, 2):
                            key = (n, g, kind, hm, seq, rep)
                            if key in done:
                                continue
                            if ln < L or nmax == 3:
                                done.add(key)
                            yield [n, g, kind, hm, 'both', list(seq), rep, '']
    # one-sided hooks: a layer that only defines testSetUp / only testTearDown
    for n, g, kind in _graphs(2):
        for hm in range(1, 1 << n):
            for side in ('S', 'D'):
                for k in ('pass', 'fail', 'skip_dec', 'sub:1,0,1'):
                    for rep in (1, 2):
                        yield [n, g, kind, hm, side, [k, 'pass'], rep, '']
    # formatter / verbosity / debugger modes around per-test hooks
    for n, g, kind in _graphs(3):
        for hm in (range(1, 1 << n) if n < 3 else [(1 << n) - 1]):
            for k in ('pass', 'fail', 'skip_dec', 'skip_cls', 'skip_body'):
                for mode in ('c', 'c+v3', 'c+v4+slow', 'v4', 'p', 'D'):
                    yield [n, g, kind, hm, 'both', [k, 'pass'], 1, mode]
                    if mode == 'D' and k == 'fail':
                        # (the debugger is scripted: it returns at once, the
                        # run then ends with EndRun)
                        for k2 in ('error', 'setup_err', 'teardown_err', 'sub:1,0,1'):
                            yield [n, g, kind, hm, 'both', [k2, 'pass'], 1, mode]
                            yield [n, g, kind, hm, 'both', ['pass', k2], 2, mode]
    # layer objects of other shapes (falsy instance layers, value-equal
    # layers with copied bases, name-shadowed layers, dotted-string
    # declarations): their per-test hooks bracket the tests all the same
    for n, g, kind in _graphs(3):
        for shape in ('len0', 'bool0', 'eq', 'shadow', 'lstr'):
            if kind == 'c' and shape not in ('shadow', 'lstr'):
                continue
            for hm in range(1, 1 << n):
                for k in ('pass', 'fail', 'skip_dec'):
                    for rep in (1, 2):
                        yield [n, g, kind, hm, 'both', [k, 'pass'], rep, 'shape:' + shape]
    # -x: the test that stops the run still gets its testTearDown
    for n, g, kind in _graphs(2):
        for hm in range(1, 1 << n):
            for k in kinds:
                for rep in (1, 2):
                    yield [n, g, kind, hm, 'both', [k, 'pass'], rep, 'x']
    # per-test hooks that a layer installs in its own setUp (late hooks): on
    # the hook-bearing layers the hooks only exist once the layer is set up
    for n, g, kind in _graphs(3):
        for hm in range(1, 1 << n):
            for k in ('pass', 'fail'):
                yield [n, g, kind, hm, 'late', [k, 'pass'], 1, '']
                yield [n, g, kind, hm, 'lateD', [k, 'pass'], 2, '']
    # hook ORDER over larger graphs: every DAG with ordered bases on 4 (thorough:
    # 5) layers under every naming of the nodes (the runner orders layers by
    # name), all layers hook-bearing, one passing test per layer
    nbig = 4 if tier == 'quick' else 5
    for nn in range(4, nbig + 1):
        for g in worlds.dags(nn):
            if max(len(b) for b in g) < 2:
                continue              # chains and trees are covered above
            kk = ['i'] + (['c'] if worlds.c3_ok(g) else [])
            for perm in itertools.permutations(range(nn)):
                for kind in kk:
                    yield [nn, g, kind, (1 << nn) - 1, 'both', ['pass'], 1, '', list(perm)]
    # ... and hand-picked graphs on 5 and 6 layers under every naming
    for g in worlds.DEEP_GRAPHS:
        nn = len(g)
        kk = ['i'] + (['c'] if worlds.c3_ok(g) else [])
        for perm in itertools.permutations(range(nn)):
            for kind in kk:
                yield [nn, g, kind, (1 << nn) - 1, 'both', ['pass'], 1, '', list(perm)]
    if tier == 'thorough':
        for n, g, kind in _graphs(3):
            for hm in range(1, 1 << n):
                for side in ('S', 'D'):
                    for k in kinds:
                        yield [n, g, kind, hm, side, [k, 'pass'], 1, '']
        for n, g, kind in _graphs(2):
            for hm in range(1 << n):
                for seq in itertools.product(kinds, repeat=2):
                    yield [n, g, kind, hm, 'both', list(seq), 1, 'j2']


def build_spec(case):
    n, g, kind, hm, side, seq, rep, mode = case[:8]
    names = worlds.names_for(n, case[8] if len(case) > 8 else 'fwd')
    hooks = []
    late = {}
    for i in range(n):
        h = list(worlds.HOOKS_SD)
        if (hm >> i) & 1:
            if side in ('both', 'S'):
                h.append('testSetUp')
            if side in ('both', 'D'):
                h.append('testTearDown')
            if side == 'late':
                late[i] = ['testSetUp', 'testTearDown']
            elif side == 'lateD':
                h.append('testSetUp')
                late[i] = ['testTearDown']
        hooks.append(h)
    layers = worlds.layer_specs(g, kind, names, hooks)
    for i, lh in late.items():
        layers[i]['lh'] = lh
        # the monitor expects these hooks on this layer
        layers[i]['h'] = layers[i]['h'] + [x for x in lh if x not in layers[i]['h']]
        layers[i]['hdecl'] = [x for x in layers[i]['h'] if x not in lh]
    tests = []
    for i in range(n - 1):
        tests.append({'n': 'o' + names[i], 'l': names[i], 's': 'pass'})
    for j, s in enumerate(seq):
        tests.append({'n': 'q%d' % j, 'l': names[n - 1], 's': s})
    if mode.startswith('shape:'):
        shape = mode[6:]
        for L in layers:
            if shape == 'shadow':
                L['shadow'] = True
            elif shape != 'lstr':
                L['ish'] = shape
        if shape == 'lstr':
            for t in tests:
                t['lstr'] = True
    argv = []
    if rep > 1:
        argv += ['--repeat', str(rep)]
    if mode == 'j2':
        argv += ['-j2']
    if mode == 'x':
        argv += ['-x']
    argv += {'c': ['-c'], 'c+v3': ['-c', '-vvv'], 'c+v4+slow': ['-c', '-vvvv', '--slow-test', '5'],
             'v4': ['-vvvv'], 'p': ['-p'], 'D': ['-D']}.get(mode, [])
    if mode == 'c+v4+slow':
        for t in tests:
            t['slowt'] = 30
        for L in layers:
            L['slow'] = 70
    return {'layers': layers, 'tests': tests}, argv


def setup_worker():
    runrt._mods()


def history_key(case):
    """second run in one process: hooks on both layers of a chain, each
    outcome kind once, both repeat counts"""
    if case[0] == 2 and [list(b) for b in case[1]] == [[], [0]] and case[2] == 'i' and case[4] == 'both' and len(case[5]) == 1 and len(case) == 8:
        if case[3] == 3 and case[5][0] in ('pass', 'fail', 'skip_dec', 'sub_skip', 'error', 'kbint') and case[7] == '':
            return (case[5][0], case[6])
    return None


HISTORY_MAX = 8


def run_case(case):
    n, g, kind, hm, side, seq, rep, mode = case[:8]
    spec, argv = build_spec(case)
    if mode == 'D':
        # own the debugger: a session that returns at once
        import zope.testrunner.debug as _dbg

        class _Pdb:
            @staticmethod
            def post_mortem(tb=None):
                return None

            @staticmethod
            def set_trace(*a, **k):
                return None
        _saved_pdb = _dbg.pdb
        _dbg.pdb = _Pdb
        try:
            res = runrt.run_world(spec, argv)
        finally:
            _dbg.pdb = _saved_pdb
    else:
        res = runrt.run_world(spec, argv)
    sv = monitors.SpecView(spec)
    states, transitions = set(), set()
    viol = []
    if mode == 'D':
        # post-mortem mode: the runner itself calls startTest / debug() /
        # stopTest, TestCase.run (where the world marks the test bracket) is
        # never entered.  Oracle on the hook events alone: they form properly
        # nested, mirrored brackets, one per test and process
        for vp in sorted({ev[0] for ev in res.trace}):
            stack, brackets, opened = [], 0, []
            bad = None
            for ev in res.trace:
                if ev[0] != vp or ev[1] != 'L' or ev[3] not in ('testSetUp', 'testTearDown') or ev[4] != '>':
                    continue
                if ev[3] == 'testSetUp':
                    if stack and opened and opened[-1] == 'down':
                        bad = 'testSetUp of %s while the previous bracket is still closing (open: %s)' % (ev[2], stack)
                    stack.append(ev[2])
                    opened.append('up')
                else:
                    if not stack or stack[-1] != ev[2]:
                        bad = 'testTearDown of %s, innermost open layer is %s' % (ev[2], stack[-1:] or None)
                        break
                    stack.pop()
                    opened.append('down')
                    if not stack:
                        brackets += 1
                        opened = []
            if stack and not bad:
                bad = 'run ended with per-test hooks still open on %s' % stack
            ntests = len([t for t in spec['tests']
                          if vp == 0 or True])
            if bad:
                viol.append({'clause': 'unbalanced_or_not_mirrored', 'sig': {'k': 'D'},
                             'detail': 'process %s: %s\nargv=%s spec=%s' % (vp, bad, argv, spec)})
        nb = 0
        depth = 0
        for ev in res.trace:
            if ev[1] == 'L' and ev[3] == 'testSetUp' and ev[4] == '>':
                depth += 1
            elif ev[1] == 'L' and ev[3] == 'testTearDown' and ev[4] == '>':
                depth -= 1
                if depth == 0:
                    nb += 1
        want = sum(1 for t in spec['tests'] if any(sv.has_hook(L, 'testSetUp') for L in sv.closure[t['l']]))
        ends_early = any(k in ('fail', 'error', 'setup_err', 'teardown_err') or k.startswith('sub:') for k in seq)
        if ends_early:
            # the (scripted) debugger session is followed by EndRun: the tests
            # behind the first bad one do not start; the brackets of those
            # that did must be complete (checked above) and there is >= 1
            if want and not (1 <= nb <= want * rep):
                viol.append({'clause': 'testSetUp_missing', 'sig': {'k': 'D'},
                             'detail': '%d complete hook brackets, expected between 1 and %d (post-mortem ends the run)\nargv=%s spec=%s' % (nb, want * rep, argv, spec)})
        elif nb != want * rep:
            viol.append({'clause': 'testSetUp_missing', 'sig': {'k': 'D'},
                         'detail': '%d complete hook brackets for %d tests on hook-bearing stacks\nargv=%s spec=%s' % (nb, want * rep, argv, spec)})
    else:
        for clause, sig, detail in monitors.check_test_hooks(sv, res, states, transitions):
            viol.append({'clause': clause, 'sig': sig,
                         'detail': detail + '\nargv=%s spec=%s' % (argv, spec)})
    if res.escaped:
        # containment is C04's business; here it only matters that the hooks
        # stayed balanced up to the abort, which the monitor already checked
        pass
    nt = bool(hm) and (n >= 2 or any(s != 'pass' for s in seq))
    return {'nontrivial': nt, 'violations': viol, 'states': states,
            'transitions': transitions,
            'outcome': (tuple(seq) if len(seq) == 1 else len(seq), bool(res.escaped)),
            'counters': {'escaped_runs': 1 if res.escaped else 0}}
