"""C08 — filter patterns: any positive match and no negated match."""
import itertools
import re

from vt import runrt
from vt import worlds

ID = 'C08'
LEVEL = 'exploration'
RULE = ('pure part: every list of <=L patterns (with repetition, so every '
        'order and duplicate occurs) over 18 regexes (anchors, alternations, empty, never-matching, classes, inline flags, numbered and named back-references) x {plain, !-negated} '
        'evaluated on 16 names by the real build_filtering_func and compared '
        'with an independent re.search-based spec; plus order independence, '
        'duplicate insensitivity, "adding !p never selects", "adding a '
        'positive never deselects (when a positive is already present)". '
        'end-to-end part: worlds with 5 tests in 3 layers run with every list '
        'of <=2 -t patterns / --layer patterns from a menu; executed tests and '
        'layers must be exactly those the spec accepts; the -t lists also together with 12 spellings of the level options on a world with levels 1..3. non-trivial = list '
        'contains >=1 negated or >=2 patterns')
ASSUMPTIONS = [
    'names are non-empty (test ids, module and layer names cannot be empty)',
    'the "adding a positive pattern never deselects" consequence is only demanded when the list already has a positive pattern: with only negated patterns the first positive pattern replaces the implicit "." and the statement\'s own iff allows deselection there',
]
BOUND = {'quick': 'L<=3 (36^1+36^2+36^3 lists x 16 names); end-to-end lists <=2',
         'thorough': 'L<=4 (36^4 more lists); end-to-end lists <=3'}
CHUNK = 8

PATS = ['a', 'b', '^a', 'a$', 'a|b', '.', '', 'x', 'a.c', '^a|b', 'c|^b',
        '^(a|b)$', 'b$|^c', '[ab]c',
        # patterns that are only right when compiled on their own: inline
        # flags, numbered and named groups with back-references
        '(?i)B', r'(b)\1', '(?P<g>a)(?P=g)', '(?s)a.b',
        # a '!' that belongs to the regex: '!!b' negates the regex '!b'
        '!b', '!',
        # exact names spelled as an escaped, anchored regex (what tools that
        # re-run single tests generate)
        r'^a\.c$', '^ab$']
NAMES = ['a', 'b', 'ab', 'ba', 'abc', 'a.c', 'xa', 'c', 'A', 'a\nb', 'cb',
         'xb', 'bc', 'bb', 'aa', 'Bc', 'a!b', '!']

T_PATS = ['q1', 'q1 ', '^test_q1 ', 'q0|q10', '^test_q0|q2', 'T_q2', 'nomatch',
          r'\.test_q1$|q0 ', '', '(?i)TEST_Q2 ', r'(q1) .*\1\)',
          # patterns that look at the tail of the id: class, method, ')'
          r'T_q1\.test_q1\)$', r'\(vtw\.tests\.T_q2\)', r'T_q10\)', r'\.test_q\d+\)$',
          # "everything", and a '!' inside the regex
          '.', '!q1']
L_PATS = ['A', 'A$', 'AB', r'tests\.A$|B$', '^vtw', 'B$', 'nomatch', 'UnitTests',
          '^zope|AB$',
          # regex syntax that contains a comma
          r'tests\.A{1,2}$', r'A[,B]$', r'AB{0,1}$']


def spec_accept(patterns, name):
    pos = [p for p in patterns if not p.startswith('!')]
    neg = [p[1:] for p in patterns if p.startswith('!')]
    if not pos and neg:
        pos = ['.']
    return (any(re.search(p, name) for p in pos)
            and not any(re.search(p, name) for p in neg))


def all_pats():
    return PATS + ['!' + p for p in PATS]


def cases(tier, seed):
    L = 3 if tier == 'quick' else 4
    ap = all_pats()
    # block = (first pattern index, length): the remaining positions are
    # enumerated inside the worker
    for ln in range(1, L + 1):
        for first in worlds.rot(range(len(ap)), seed):
            if ln == 4:
                for second in range(len(ap)):
                    yield ['pure', ln, first, second]
            else:
                yield ['pure', ln, first, None]
    e2e = 2 if tier == 'quick' else 3
    for opt, menu in (('-t', T_PATS), ('--layer', L_PATS)):
        m2 = menu + ['!' + p for p in menu]
        for ln in range(1, e2e + 1):
            for lst in itertools.product(m2, repeat=ln):
                if ln == 3 and len(set(lst)) < 3:
                    continue
                yield ['e2e', opt, list(lst)]
    for p in T_PATS:
        if p and not p.startswith('-'):
            yield ['e2e', 'positional', [p]]
            yield ['e2e', 'positional', [p, '!q1 ']]
    # patterns given partly in the script's defaults, partly on the command
    # line (option and legacy positional spelling)
    for a, b in itertools.product(['q1', '!q1 ', 'q2', '^test_q3'], ['q1', 'q2', '!q2', 'q0|q3']):
        for how in ('defaults+option', 'defaults+positional', 'all in defaults'):
            yield ['e2e_defaults', how, [a, b]]
    # --layer lists when the layers run in child processes, layer names that
    # differ in one character a regex would treat specially
    for ln in (1, 2):
        for lst in itertools.product(CL_PATS, repeat=ln):
            if ln == 2 and lst[0] == lst[1]:
                continue
            for mode in ('seq', 'j2', 'j3'):
                yield ['e2e_child', mode, list(lst)]
    # the test filter together with every spelling of the level options: the
    # selection is the conjunction (a level option must not switch -t off)
    for lv in LEVEL_VECTORS:
        for lst in ([p] for p in ('q1', '!q1 ', 'q2', '^test_q1 ', 'nomatch', '')):
            yield ['e2e_level', lv, lst]
        for lst in (['q1', '!q10'], ['q0|q10', 'q2'], ['!q2', '!q0']):
            yield ['e2e_level', lv, lst]
        yield ['e2e_level_positional', lv, ['q1']]
    # --module (and multi-pattern --test) end to end on modules discovered on
    # disk: shared with C03's real-discovery worlds
    yield from _m_cases()


CL_PATS = [r'a\.b', 'a_b', '!a_b', 'a.b$', '!axb', r'!a\.b', 'tests.a', 'b$']
CL_WORLD = {
    'layers': [{'n': nm, 'b': [], 'k': 'i', 'h': ['setUp', 'tearDown']} for nm in ('a.b', 'a_b', 'axb', 'zz')],
    'tests': [{'n': 'q%d' % i, 'l': nm, 's': 'pass'} for i, nm in enumerate(('a.b', 'a_b', 'axb', 'zz'))] +
             [{'n': 'u', 'l': None, 's': 'pass'}],
}


def history_cases(tier):
    """runs that share their defaults and differ in the command line"""
    return [['e2e_defaults', 'defaults+positional', ['q1', 'q2']],
            ['e2e_defaults', 'all in defaults', ['q1', '!q10']],
            ['e2e_defaults', 'defaults+option', ['q1', '!q10']],
            ['e2e_defaults', 'defaults+positional', ['q1', 'q0|q3']],
            ['e2e', '-t', ['q2']], ['e2e', '--layer', ['AB']], ['e2e', '--layer', ['!AB']]]


def _m_cases():
    from vt.props import c03
    for rk in ('one', 'pkg+subpkg', 'package-path'):
        for fi, flt in enumerate(c03.DISK_FILTERS):
            if '-m' in flt or len(flt) >= 4 or any('T_c' in x for x in flt):
                yield ['e2e_disk', rk, fi]


def setup_worker():
    runrt._mods()
    global build_filtering_func
    from zope.testrunner.filter import build_filtering_func


WORLD = {
    'layers': [{'n': 'A', 'b': [], 'k': 'c', 'h': ['setUp', 'tearDown']},
               {'n': 'AB', 'b': [], 'k': 'c', 'h': ['setUp', 'tearDown']}],
    'tests': [{'n': 'q0', 'l': None, 's': 'pass'},
              {'n': 'q1', 'l': 'A', 's': 'pass'},
              {'n': 'q10', 'l': 'A', 's': 'pass'},
              {'n': 'q2', 'l': 'AB', 's': 'pass'},
              {'n': 'q21', 'l': 'AB', 's': 'pass'},
              # a class that declares layer AB inside a suite that declares A:
              # the nearest declaration (AB) is what --layer is matched against
              {'n': 'q3', 'l': 'AB', 's': 'pass'}],
    'tree': [{'t': 'q0'}, {'t': 'q1'}, {'t': 'q10'}, {'t': 'q2'}, {'t': 'q21'},
             {'c': [{'c': [{'t': 'q3'}]}], 'l': 'A'}],
}
TID = {t['n']: 'test_%s (vtw.tests.T_%s.test_%s)' % (t['n'], t['n'], t['n'])
       for t in WORLD['tests']}
LNAME = {None: 'zope.testrunner.layer.UnitTests', 'A': 'vtw.tests.A',
         'AB': 'vtw.tests.AB'}


LEVEL_VECTORS = [['--at-level', '0'], ['--at-level=-1'], ['-a', '0'], ['-a', '1'], ['-a', '2'], ['-a3'],
                 ['--all'], ['--only-level', '1'], ['--only-level', '2'], ['--all', '--at-level', '2'],
                 ['--at-level', '2', '--all'], []]
LV_WORLD = dict(WORLD, tests=[dict(t, lv={'q0': None, 'q1': 2, 'q10': 1, 'q2': 3, 'q21': 2, 'q3': None}[t['n']])
                              for t in WORLD['tests']])
LV = {t['n']: (t['lv'] or 1) for t in LV_WORLD['tests']}


def _level_ok(lv_argv, lvl):
    """the level rule as C09 states it (refmodel): --only-level N: exactly N;
    --all (wherever it stands) or a level <= 0: everything; else levels <= N"""
    from vt import refmodel
    norm = []
    for a in lv_argv:
        if a == '-a':
            norm.append('--at-level')
        elif a.startswith('-a') and len(a) > 2 and not a.startswith('--'):
            norm += ['--at-level', a[2:]]
        else:
            norm.append(a)
    o = refmodel.parse_filters(norm)
    if o['only'] is not None:
        return lvl == o['only']
    return o['all'] or o['at'] <= 0 or lvl <= o['at']


class _Raises:
    """Stands in for a filter that could not even be built / called."""

    def __init__(self, exc):
        self.exc = exc

    def __call__(self, name):
        return 'raises %r' % (self.exc,)


def _bff(lst, viol, orig):
    try:
        f = build_filtering_func(lst)
    except Exception as e:
        viol.append(('exception', 'build_filtering_func(%r): %r' % (lst, e), orig, None))
        return _Raises(e)

    def call(name):
        try:
            return bool(f(name))
        except Exception as e:
            viol.append(('exception', 'filter(%r)(%r): %r' % (lst, name, e), orig, name))
            return 'raises'
    return call


def run_pure(ln, first, second):
    ap = all_pats()
    viol = []
    evals = 0
    nt = 0
    fixed = [ap[first]] + ([ap[second]] if second is not None else [])
    rest = ln - len(fixed)
    for tail in itertools.product(ap, repeat=rest):
        lst = fixed + list(tail)
        acc = _bff(lst, viol, lst)
        if isinstance(acc, _Raises):
            continue
        has_pos = any(not p.startswith('!') for p in lst)
        if len(lst) >= 2 or any(p.startswith('!') for p in lst):
            nt += 1
        got = []
        for name in NAMES:
            evals += 1
            g = acc(name)
            got.append(g)
            w = spec_accept(lst, name)
            if g != w:
                viol.append(('iff', 'accept=%s spec=%s' % (g, w), lst, name))
        # the predicate is a function of (patterns, name): asking again (a
        # second candidate with an equal name) gives the same answer
        for name, g in zip(NAMES[::-1], got[::-1]):
            if acc(name) != g:
                viol.append(('answer_changes_when_asked_again', 'first answer %s' % g, lst, name))
        # algebraic consequences on the real function
        if ln <= 3:
            for perm in itertools.permutations(lst):
                if list(perm) == lst:
                    continue
                a2 = _bff(list(perm), viol, lst)
                for name, g in zip(NAMES, got):
                    if a2(name) != g:
                        viol.append(('order_dependence', str(list(perm)), lst, name))
            a3 = _bff(lst + lst, viol, lst)
            for name, g in zip(NAMES, got):
                if a3(name) != g:
                    viol.append(('duplicate_sensitivity', '', lst, name))
        if ln <= 2:
            for extra in ap:
                a4 = _bff(lst + [extra], viol, lst)
                for name, g in zip(NAMES, got):
                    g4 = a4(name)
                    if g4 not in (True, False):
                        continue
                    if extra.startswith('!') and g4 and not g:
                        viol.append(('negated_pattern_selected', extra, lst, name))
                    if not extra.startswith('!') and has_pos and g and not g4:
                        viol.append(('positive_pattern_deselected', extra, lst, name))
    return evals, nt, viol


def run_case(case):
    if case[0] == 'pure':
        _, ln, first, second = case
        evals, nt, vs = run_pure(ln, first, second)
        viol = []
        for clause, info, lst, name in vs[:50]:
            viol.append({'clause': clause,
                         'sig': {'neg_only': all(p.startswith('!') for p in lst),
                                 'anchored_alt': any(('|' in p and '^' in p) for p in lst)},
                         'detail': 'patterns=%r name=%r %s' % (lst, name, info),
                         'case': case})
        return {'evals': evals, 'nontrivial': nt, 'violations': viol,
                'outcome': 'pure'}
    if case[0] == 'e2e_disk':
        from vt.props import c03
        viol = c03.run_disk_case(case[1], case[2])
        for v in viol:
            v['sig'] = {'opt': '-m/-t on disk'}
        return {'evals': 2, 'nontrivial': 2, 'violations': viol, 'outcome': 'e2e_disk'}
    if case[0] == 'e2e_child':
        _, mode, lst = case
        argv = [x for p in lst for x in ('--layer', p)] + {'seq': [], 'j2': ['-j2'], 'j3': ['-j3']}[mode]
        res = runrt.run_world(CL_WORLD, argv)
        ran = sorted(ev[2] for ev in res.trace if ev[1] == 't' and ev[3] == 'body')
        want = sorted(t['n'] for t in CL_WORLD['tests']
                      if spec_accept(lst, 'vtw.tests.' + t['l'] if t['l'] else 'zope.testrunner.layer.UnitTests'))
        viol = []
        if res.escaped:
            viol.append({'clause': 'run_aborted', 'sig': {'opt': '--layer', 'mode': mode}, 'detail': '%s\n%s' % (argv, res.escaped_tb)})
        elif ran != want or res.failed:
            viol.append({'clause': 'e2e_selection', 'sig': {'opt': '--layer', 'mode': mode},
                         'detail': 'argv=%s ran=%s spec selects %s (failed=%s errors=%s)' % (argv, ran, want, res.failed, res.errors)})
        return {'nontrivial': True, 'violations': viol, 'outcome': ('child', len(ran))}
    if case[0] in ('e2e_level', 'e2e_level_positional'):
        _, lv_argv, lst = case
        if case[0] == 'e2e_level':
            argv = list(lv_argv) + [x for p in lst for x in ('-t', p)]
        else:
            argv = list(lv_argv) + ['.', lst[0]]
        res = runrt.run_world(LV_WORLD, argv)
        ran = sorted({ev[2] for ev in res.trace if ev[1] == 't' and ev[3] == 'body'})
        want = sorted(n for n in TID if spec_accept(lst, TID[n]) and _level_ok(lv_argv, LV[n]))
        viol = []
        sig = {'opt': 'level+test', 'lv': ' '.join(lv_argv)}
        if res.escaped:
            viol.append({'clause': 'run_aborted', 'sig': sig, 'detail': '%s\n%s' % (argv, res.escaped_tb)})
        elif ran != want:
            viol.append({'clause': 'e2e_selection', 'sig': sig,
                         'detail': 'argv=%s ran=%s; the patterns and the level rule select %s' % (argv, ran, want)})
        return {'nontrivial': True, 'violations': viol, 'outcome': ('level', len(lv_argv), len(ran))}
    if case[0] == 'e2e_defaults':
        _, how, lst = case
        if how == 'defaults+option':
            defaults, argv = ['-t', lst[0]], ['-t', lst[1]]
        elif how == 'defaults+positional':
            defaults, argv = ['-t', lst[0]], ['.', lst[1]]
        else:
            defaults, argv = ['-t', lst[0], '-t', lst[1]], []
        res = runrt.run_world(WORLD, argv, defaults=defaults)
        ran = sorted({ev[2] for ev in res.trace if ev[1] == 't' and ev[3] == 'body'})
        want = sorted(n for n in TID if spec_accept(lst, TID[n]))
        viol = []
        if res.escaped:
            viol.append({'clause': 'run_aborted', 'sig': {'opt': how}, 'detail': '%s %s\n%s' % (defaults, argv, res.escaped_tb)})
        elif ran != want:
            viol.append({'clause': 'e2e_selection', 'sig': {'opt': how},
                         'detail': 'defaults=%s argv=%s ran=%s spec selects %s' % (defaults, argv, ran, want)})
        return {'nontrivial': True, 'violations': viol, 'outcome': (how, len(ran))}
    _, opt, lst = case
    argv = []
    if opt == 'positional':
        # legacy spelling: [MODULE-FILTER [TEST-FILTER]] as positional arguments
        argv = ['.', lst[0]] + [x for p in lst[1:] for x in ('-t', p)]
        opt = '-t'
    else:
        for p in lst:
            argv += [opt, p]
    res = runrt.run_world(WORLD, argv)
    viol = []
    ran = sorted({ev[2] for ev in res.trace if ev[1] == 't' and ev[3] == 'body'})
    if opt == '-t':
        want = sorted(n for n in TID if spec_accept(lst, TID[n]))
    else:
        want = sorted(t['n'] for t in WORLD['tests']
                      if spec_accept(lst, LNAME[t['l']]))
    if res.escaped:
        viol.append({'clause': 'run_aborted', 'sig': {'opt': opt},
                     'detail': '%s\n%s' % (argv, res.escaped_tb)})
    elif ran != want:
        viol.append({'clause': 'e2e_selection', 'sig': {'opt': opt},
                     'detail': 'argv=%s ran=%s spec selects %s' % (argv, ran, want)})
    nt = len(lst) >= 2 or any(p.startswith('!') for p in lst)
    return {'nontrivial': bool(nt), 'violations': viol,
            'outcome': (opt, len(ran))}
