"""Test worlds: a JSON spec -> real layer objects, real unittest.TestCase
classes and suites, every hook and test phase of which appends an event to a
trace.  One spec, two materialisers:

* in memory  : ``build(spec)`` -> Built (suites for ``Runner(found_suites=...)``)
* on disk    : ``write_disk(spec, root)`` -> a package whose ``tests.py`` calls
               ``build`` at import time; events go to the file named by
               ``$VT_TRACE`` (one O_APPEND write per event, pid-tagged).

Spec (all keys short because millions of them are hashed):

 layers : [{n:name, b:[base names], k:'c'|'i', h:[hook names],
            f:{hook: exc-name}}]           (listed bases first)
 tests  : [{n:id, l:layer-name|None, s:script, lv:level|None,
            w:[[stream,text,via_buffer]], ws:[...] (writes in setUp),
            th:[thread actions], li:'inst' (layer on instance)}]
 tree   : optional nested suite structure
            {'c':[children], 'l':layer|None, 'lv':level|None} / {'t': test-id}
 mod    : module name (default 'vtw.tests')
 bad_modules : [{name, how}]  -> StartUpFailure-like import errors are made by
            the on-disk materialiser only.
"""
import functools
import io
import json
import os
import sys
import threading
import types
import unittest

def WARP(seconds):      # runrt points this at the runner's (virtual) clock
    pass


TRACE = []
VPID = 0
EXEC = {}             # (virtual pid, test id) -> executions so far (scripts x@K)
PROBE = None          # callable -> tuple appended to each in-memory event
_trace_fd = None
_pid = None

MOD = 'vtw.tests'


def _open_trace():
    global _trace_fd, _pid
    p = os.environ.get('VT_TRACE')
    if p:
        _trace_fd = os.open(p, os.O_WRONLY | os.O_APPEND | os.O_CREAT, 0o644)
        _pid = os.getpid()


def emit(*ev):
    if _trace_fd is not None:
        pid = os.getpid()
        os.write(_trace_fd, (json.dumps([pid] + list(ev)) + '\n').encode())
    elif PROBE is not None:
        TRACE.append((VPID,) + ev + PROBE())
    else:
        TRACE.append((VPID,) + ev)


# ------------------------------------------------------------------ exceptions

class UserExc(Exception):
    pass


class BadStrExc(Exception):
    def __str__(self):
        raise RuntimeError('__str__ of BadStrExc raises')


class DeepExc(UserExc):
    """An exception subclass two levels below Exception."""


class UnhashableExc(Exception):
    """An exception compared by value (defining __eq__ removes __hash__): the
    error types of several validation / RPC libraries are like this."""

    def __eq__(self, other):
        return isinstance(other, UnhashableExc) and self.args == other.args


class EqRaisesExc(Exception):
    """An exception whose comparison and hash are not usable at all."""

    def __eq__(self, other):
        raise TypeError('not comparable')

    def __hash__(self):
        raise TypeError('not hashable')


EXC = {
    'Unhashable': UnhashableExc, 'EqRaises': EqRaisesExc,
    'ValueError': ValueError, 'KeyError': KeyError,
    'AssertionError': AssertionError, 'User': UserExc, 'BadStr': BadStrExc,
    'Deep': DeepExc, 'NIE': NotImplementedError, 'Skip': unittest.SkipTest,
    'SystemExit': SystemExit, 'KeyboardInterrupt': KeyboardInterrupt,
    'OSError': OSError, 'TypeError': TypeError,
    'Unicode': UnicodeDecodeError, 'Runtime': RuntimeError,
    'Recursion': RecursionError, 'Stop': StopIteration,
    'Syntax': SyntaxError, 'Indent': IndentationError,
}


def die(how):
    """Kill this process (only ever used in real child processes)."""
    import signal
    try:
        sys.stdout.flush()
    except Exception:       # stdout is already closed while the child reports
        pass
    if how == 'exit0':
        os._exit(0)
    if how == 'exit3':
        os._exit(3)
    if how == 'kill':
        os.kill(os.getpid(), signal.SIGKILL)
    if how == 'segv':
        import resource
        resource.setrlimit(resource.RLIMIT_CORE, (0, 0))
        os.kill(os.getpid(), signal.SIGSEGV)
    if how == 'rtsig':
        # a real-time signal: it has no name in signal.Signals
        os.kill(os.getpid(), signal.SIGRTMIN + 6)
    if how == 'sysexit0':
        sys.exit(0)
    if how == 'sysexit3':
        sys.exit(3)
    raise ValueError(how)


def in_child():
    return '--resume-layer' in sys.argv


def mkexc(name, msg):
    if name == 'Chained':        # raise X from Y
        e = ValueError(msg)
        e.__cause__ = KeyError('the cause')
        return e
    if name == 'Context':        # raised while handling another exception
        e = ValueError(msg)
        e.__context__ = KeyError('the context')
        return e
    if name == 'Chain3':
        e = ValueError(msg)
        c = KeyError('mid')
        c.__context__ = OSError('root')
        e.__cause__ = c
        return e
    if name == 'CauseCycle':     # raise A from B ... raise B from A
        e = ValueError(msg)
        c = KeyError('the other one')
        e.__cause__ = c
        c.__cause__ = e
        return e
    if name == 'ContextCycle':
        e = ValueError(msg)
        c = KeyError('the other one')
        e.__context__ = c
        c.__context__ = e
        return e
    if name == 'SelfCause':
        e = ValueError(msg)
        e.__cause__ = e
        return e
    if name == 'UnhashableCause':  # raise X from <an unhashable exception>
        e = ValueError(msg)
        e.__cause__ = UnhashableExc('the cause')
        return e
    if name == 'Group':
        return ExceptionGroup(msg, [ValueError('g1'), KeyError('g2')])
    if name == 'Noted':
        e = ValueError(msg)
        e.add_note('a note on the exception')
        return e
    if name == 'Unicode':
        return UnicodeDecodeError('utf-8', b'\xff', 0, 1, msg)
    if name in ('Syntax', 'Indent'):
        # as raised by compile()/import: the traceback gets a  File "x", line N
        # line without ", in <function>"
        return EXC[name](msg, ('generated.py', 3, 7, 'def broken(:\n', 3, 8))
    if name == 'SystemExit':
        return SystemExit(3)
    # messages of other shapes: none at all, blank, starting with a newline
    if name == 'Empty':
        return ValueError()
    if name == 'NIEbare':
        return NotImplementedError()
    if name == 'AssertBare':
        return AssertionError()
    if name == 'Blank':
        return ValueError('   ')
    if name == 'NLfirst':
        return ValueError('\nsecond line of ' + msg)
    return EXC[name](msg)


# ---------------------------------------------------------------------- layers

class InstLayer:
    """An instance layer: upstream only needs __name__, __module__, __bases__."""

    def __init__(self, name, module, bases):
        self.__name__ = name
        self.__module__ = module
        self.__bases__ = tuple(bases)

    def __repr__(self):
        return '<InstLayer %s>' % self.__name__


class Len0Layer(InstLayer):
    """A resource-holding layer object that is an empty container."""

    def __len__(self):
        return 0


class Bool0Layer(InstLayer):
    def __bool__(self):
        return False


class EqLayer(InstLayer):
    """Layers compared by value: two objects made for the same name are the
    same layer (a factory called in several modules)."""

    def __eq__(self, other):
        return (isinstance(other, EqLayer) and self.__name__ == other.__name__
                and self.__module__ == other.__module__)

    def __ne__(self, other):
        return not self.__eq__(other)

    def __hash__(self):
        return hash((self.__module__, self.__name__))


ISHAPES = {'len0': Len0Layer, 'bool0': Bool0Layer, 'eq': EqLayer}


HOOK_ACTIONS = {}     # (layer, hook, k-th call) -> [thread actions]
_hook_calls = {}


def reset_hook_actions(actions=None):
    HOOK_ACTIONS.clear()
    HOOK_ACTIONS.update(actions or {})
    _hook_calls.clear()


_LAYER_EXTRA = {}      # layer name -> spec dict (for 'sw' / 'lh')
_SWAPPED = {}          # layer name -> streams saved by its setUp


def _hook_body(lname, hook, faults):
    emit('L', lname, hook, '>')
    extra = _LAYER_EXTRA.get(lname) or {}
    if extra.get('slow') and hook in ('setUp', 'tearDown') and extra.get('slow_only') in (None, hook):
        WARP(extra['slow'])          # this hook "takes" that many seconds
    if extra.get('sw'):
        # a layer that runs with a private sys.stdout of its own
        if hook == 'setUp':
            _SWAPPED[lname] = sys.stdout
            sys.stdout = io.StringIO()
        elif hook == 'tearDown' and lname in _SWAPPED:
            sys.stdout = _SWAPPED.pop(lname)
    if extra.get('unpath') and hook == 'setUp':
        # a layer that cleans sys.path of the directories the run added
        for x in list(sys.path):
            if '/vt-c18-' in x:
                sys.path.remove(x)
    if extra.get('lh') and hook == 'setUp':
        # per-test hooks that only exist once the layer has been set up
        obj = extra['_obj']
        for hk in extra['lh']:
            if isinstance(obj, type):
                # (derived class layers inherit it, like a hook in the body)
                setattr(obj, hk, _cls_hook(hk, faults))
            else:
                setattr(obj, hk, functools.partial(_hook_body, lname, hk, faults))
    if HOOK_ACTIONS:
        k = _hook_calls.get((lname, hook), 0)
        _hook_calls[(lname, hook)] = k + 1
        for act in HOOK_ACTIONS.get((lname, hook, k), ()):
            thread_action(act)
    exc = faults.get((lname, hook))
    if exc and exc.startswith('DIE:'):
        if in_child():
            emit('L', lname, hook, 'die', exc)
            die(exc[4:])
        exc = None
    if exc:
        emit('L', lname, hook, '!', exc)
        raise mkexc(exc, '%s.%s %s' % (lname, hook, exc))
    emit('L', lname, hook, '<')
    if extra.get('ret') and hook in ('setUp', 'tearDown'):
        return 'a resource handle'      # hooks that return something


def _cls_hook(hook, faults):
    def h(cls):
        return _hook_body(cls.__name__, hook, faults)
    h.__name__ = hook
    return classmethod(h)


_EQ_MAKERS = {}


def _decoy_hook(lname, hook):
    emit('L', lname, hook, '!', 'DECOY')
    raise AssertionError('%s of the module attribute that merely has the name of layer %s was called' % (hook, lname))


def make_layers(spec_layers, modname):
    objs = {}
    faults = {}
    for L in spec_layers:
        for hk, e in (L.get('f') or {}).items():
            if e:
                faults[(L['n'], hk)] = e
    _LAYER_EXTRA.clear()
    _SWAPPED.clear()
    _EQ_MAKERS.clear()
    for L in spec_layers:
        bases = tuple(objs[b] for b in L.get('b') or ())
        lmod = L.get('m') or modname
        declared = L.get('hdecl') if 'hdecl' in L else (L.get('h') or ())
        if L.get('k', 'c') == 'c':
            ns = {'__module__': lmod}
            for hk in declared:
                ns[hk] = _cls_hook(hk, faults)
            objs[L['n']] = type(L['n'], bases or (object,), ns)
        else:
            def mk(L=L, lmod=lmod, bases=bases, declared=declared):
                o = ISHAPES.get(L.get('ish'), InstLayer)(L.get('rn') or L['n'], lmod, bases)
                for hk in declared:
                    setattr(o, hk, functools.partial(_hook_body, L['n'], hk, faults))
                return o
            if L.get('ish') == 'eq':
                # every mention of a base is a fresh, equal object
                bases = tuple(_EQ_MAKERS[b]() if b in _EQ_MAKERS else objs[b] for b in L.get('b') or ())
                _EQ_MAKERS[L['n']] = functools.partial(mk, bases=bases)
            objs[L['n']] = mk(bases=bases)
        if L.get('sw') or L.get('lh') or L.get('unpath') or L.get('slow') or L.get('ret'):
            _LAYER_EXTRA[L['n']] = dict(L, _obj=objs[L['n']])
    return objs


# ----------------------------------------------------------------------- tests

_STR_CALLS = 0
THREADS = {}      # tid -> dict(ev=Event, done=Event, ident=int, name=str)


def _thread_main(tid):
    rec = THREADS[tid]
    rec['ident'] = threading.get_ident()
    if rec.get('touch'):
        # what e.g. the logging module does in any thread
        threading.current_thread()
    rec['up'].set()
    rec['ev'].wait(30)
    rec['done'].set()


def _wait_gone(ident, timeout=5.0):
    import time
    t0 = time.time()
    while ident in sys._current_frames():
        if time.time() - t0 > timeout:
            return False
        time.sleep(0.0002)
    return True


def thread_action(act):
    import _thread
    kind = act[0]
    if VTABLE is not None:
        if kind == 'start':
            _, api, name, tid, blocked = act[:5]
            VTABLE.start(api, name, tid, blocked, len(act) > 5 and act[5])
        elif kind == 'touch':
            VTABLE.touch(act[1])
        else:
            VTABLE.release(act[1])
        return
    if kind == 'start':
        _, api, name, tid, blocked = act[:5]
        rec = {'ev': threading.Event(), 'done': threading.Event(),
               'up': threading.Event(), 'name': name, 'api': api,
               'ident': None, 'thread': None,
               'touch': len(act) > 5 and act[5]}
        if not blocked:
            rec['ev'].set()
        THREADS[tid] = rec
        if api == 'threading':
            th = threading.Thread(target=_thread_main, args=(tid,),
                                  name=name or None)
            th.daemon = True
            rec['thread'] = th
            th.start()
        else:
            _thread.start_new_thread(_thread_main, (tid,))
        rec['up'].wait(10)
        if not blocked:
            rec['done'].wait(10)
            if rec['thread'] is not None:
                rec['thread'].join(10)
            _wait_gone(rec['ident'])
        emit('th', 'started', tid, rec['ident'], api, name, blocked)
    elif kind == 'release':
        tid = act[1]
        rec = THREADS.get(tid)
        if rec is None or rec['ev'].is_set():
            return
        rec['ev'].set()
        rec['done'].wait(10)
        if rec['thread'] is not None:
            rec['thread'].join(10)
        _wait_gone(rec['ident'])
        emit('th', 'released', tid, rec['ident'])


def release_all_threads():
    for tid, rec in list(THREADS.items()):
        rec['ev'].set()
    for tid, rec in list(THREADS.items()):
        rec['done'].wait(5)
        if rec['thread'] is not None:
            rec['thread'].join(5)
        if rec['ident'] is not None:
            _wait_gone(rec['ident'])
    THREADS.clear()


def _fd2_default(text):
    os.write(2, text if isinstance(text, bytes) else text.encode('utf-8'))


FD2 = _fd2_default    # runrt points this at the (virtual) process's real stderr


def _do_writes(ws):
    for stream, text, via in ws or ():
        if stream == 'fd2':
            FD2(text)
            continue
        if stream == 'fd2b':
            # raw bytes that are not UTF-8 (a C library, a legacy locale)
            FD2(text.encode('latin-1'))
            continue
        st = sys.stdout if stream == 'o' else sys.stderr
        if via:
            # via == 'latin1': raw bytes that are not UTF-8
            st.buffer.write(text.encode('latin-1' if via == 'latin1' else 'utf-8'))
            st.buffer.flush()
        else:
            st.write(text)


def _file_action(act):
    """Barrier files for real-process runs: ['wait', name, seconds] /
    ['touch', name] under $VT_BARRIER."""
    import time
    d = os.environ.get('VT_BARRIER')
    if not d:
        return
    p = os.path.join(d, act[1])
    if act[0] == 'touch':
        with open(p, 'w'):
            pass
        return
    t0 = time.time()
    while not os.path.exists(p):
        if time.time() - t0 > act[2]:
            emit('barrier_timeout', act[1])
            raise AssertionError('barrier %s timed out' % act[1])
        time.sleep(0.01)


class VTCase(unittest.TestCase):
    _vt = None

    _vt_by_method = None

    def __init__(self, methodName='runTest'):
        super().__init__(methodName)
        if self._vt_by_method and methodName in self._vt_by_method:
            # several tests share this class: each instance has its own spec
            self._vt = self._vt_by_method[methodName]
        li = self._vt.get('li')
        if li is not None:
            # layer / level declared on the instance, not the class
            if 'l' in li:
                self.layer = li['l']
            if 'lv' in li:
                self.level = li['lv']

    def countTestCases(self):
        c = self._vt.get('ctc')
        return super().countTestCases() if c is None else c

    def __str__(self):
        sd = self._vt.get('str_die')
        if sd and in_child() and sys.argv[sys.argv.index('--resume-layer') + 1].endswith('.' + str(self._vt.get('l'))):
            global _STR_CALLS
            _STR_CALLS += 1
            if _STR_CALLS == sd[0]:
                emit('t', self._vt['n'], 'str_die', _STR_CALLS)
                die(sd[1])
        if 'strv' in self._vt:
            return self._vt['strv']      # a test with a str() of its own
        return super().__str__()

    def run(self, result=None):
        emit('t', self._vt['n'], 'run>')
        try:
            return super().run(result)
        finally:
            emit('t', self._vt['n'], 'run<')

    def setUp(self):
        vt = self._vt
        emit('t', vt['n'], 'setUp')
        _do_writes(vt.get('ws'))
        s = vt['s']
        if s == 'skip_setup':
            raise unittest.SkipTest('skip in setUp')
        if s == 'setup_err':
            raise mkexc(vt.get('e', 'ValueError'), 'setUp of %s' % vt['n'])
        if s == 'cleanup_err':
            self.addCleanup(self._bad_cleanup)
        if s == 'kbint_setup':
            raise KeyboardInterrupt()
        if s.startswith('swap_'):
            # the usual idiom: remember sys.stdout in setUp ...
            self._saved_streams = (sys.stdout, sys.stderr)
        if s.startswith('die_setup:') and in_child():
            die(s.split(':', 1)[1])

    def _bad_cleanup(self):
        emit('t', self._vt['n'], 'cleanup')
        raise mkexc(self._vt.get('e', 'ValueError'), 'cleanup of %s' % self._vt['n'])

    def tearDown(self):
        vt = self._vt
        emit('t', vt['n'], 'tearDown')
        if vt['s'].startswith('die_teardown:') and in_child():
            die(vt['s'].split(':', 1)[1])
        if vt['s'].startswith('swap_'):
            # ... and put it back in tearDown
            sys.stdout, sys.stderr = self._saved_streams
        if vt['s'] in ('teardown_err', 'body+teardown', 'fail+teardown'):
            raise mkexc(vt.get('e2', 'KeyError'), 'tearDown of %s' % vt['n'])

    def _body(self):
        vt = self._vt
        emit('t', vt['n'], 'body')
        key = (VPID, vt['n'])
        nth = EXEC[key] = EXEC.get(key, 0) + 1
        for act in vt.get('acts') or ():
            _file_action(act)
        _do_writes(vt.get('w'))
        for act in vt.get('th') or ():
            thread_action(act)
        if vt.get('slowt'):
            WARP(vt['slowt'])            # a test that "takes" that long
        self._script(nth)
        # reached only when the script did not raise
        if vt.get('w2'):
            emit('t', vt['n'], 'w2')
            _do_writes(vt['w2'])

    def _script(self, nth):
        vt = self._vt
        s = vt['s']
        if '@' in s:
            # 'fail@K' / 'error@K': bad on the K-th execution in this process only
            s, k = s.split('@')
            if int(k) != nth:
                return
        if s.startswith('die_body:'):
            if in_child():
                die(s.split(':', 1)[1])
            return
        if s.startswith('die_setup:') or s.startswith('die_teardown:'):
            return
        if s in ('pass', 'teardown_err', 'cleanup_err', 'uxs', 'skip_dec',
                 'skip_cls'):
            return
        if s == 'swap_pass':
            return
        if s in ('fail', 'xfail', 'fail+teardown', 'swap_fail'):
            self.fail('boom %s' % vt['n'])
        if s in ('error', 'body+teardown'):
            if vt.get('e') == 'Named':
                # an exception class with an arbitrary name
                raise type(vt['ename'], (Exception,), {'__module__': MOD})(
                    vt.get('msg') or 'body of %s' % vt['n'])
            raise mkexc(vt.get('e', 'ValueError'), vt.get('msg') or 'body of %s' % vt['n'])
        if s == 'skip_body':
            self.skipTest('skip in body')
        if s == 'sysexit':
            raise SystemExit(3)
        if s == 'kbint':
            raise KeyboardInterrupt()
        if s == 'sub_skip':
            # a skip raised inside a subTest block: reported while the test is
            # running; the test itself goes on and passes
            with self.subTest(i=0):
                emit('t', vt['n'], 'sub', 0, 's')
                self.skipTest('skip inside a subtest')
            with self.subTest(i=1):
                emit('t', vt['n'], 'sub', 1, 'p')
            return
        if s == 'redir_sub_fail':
            # a well-behaved test that redirects sys.stdout around a failing
            # subtest and restores it itself
            import contextlib
            with contextlib.redirect_stdout(io.StringIO()):
                with self.subTest(i=0):
                    emit('t', vt['n'], 'sub', 0, 'f')
                    self.fail('subfail under redirect_stdout')
            return
        if s in ('close_out', 'close_fail'):
            # a test that closes its standard streams (a CLI under test calling
            # sys.stdout.close(), a "with sys.stdout:" block).  Only the runner's
            # capture buffers of --buffer are closed, never a real stream.
            for st in (sys.stdout, sys.stderr):
                if hasattr(st, 'getvalue'):
                    st.close()
            if s == 'close_fail':
                self.fail('boom %s' % vt['n'])
            return
        if s == 'leave_replaced':
            # a test that replaces sys.stdout and never puts it back
            sys.stdout = io.StringIO()
            return
        if s == 'nested_fail':
            # a test that runs the test runner itself in-process (what the
            # runner's own tests and plug-in test suites do), then fails
            import zope.testrunner.runner as R
            inner = build({'layers': [], 'tests': [
                {'n': 'in0', 's': 'pass', 'w': [['o', 'TOKin0o\n', False]]},
                {'n': 'in1', 's': 'fail', 'w': [['o', 'TOKin1o\n', False], ['e', 'TOKin1e\n', False]]}],
                'mod': 'vtwinner.tests'})
            global TRACE
            saved = (TRACE, PROBE)
            try:
                # the inner world's events do not belong to the outer trace
                globals()['TRACE'] = []
                globals()['PROBE'] = None
                R.Runner(None, ['inner', '--buffer'] + (['-vv'] if vt.get('nv') else []),
                         found_suites=inner.suites, script_parts=['inner'], cwd=None).run()
            finally:
                globals()['TRACE'], globals()['PROBE'] = saved
            if vt.get('w2'):
                emit('t', vt['n'], 'w2')
                _do_writes(vt['w2'])
            self.fail('outer test fails after the nested run')
        if s.startswith('garbage:'):
            # leaves that many objects of cyclic garbage behind
            n = int(s.split(':')[1])

            class _G:
                pass
            ring = [_G() for _ in range(n)]
            for i, g in enumerate(ring):
                g.next = ring[(i + 1) % n]
            del ring
            return
        if s == 'chdir':
            # a test that changes the working directory and leaves it changed
            # (to an EMPTY scratch directory: a runner that resolves a relative
            # search path there must not find - or clean up - anything)
            import tempfile
            os.chdir(tempfile.mkdtemp(prefix='vt-chdir-',
                                      dir=os.environ.get('VT_SCRATCH_RUN') or '/dev/shm'))
            return
        if s == 'rmcwd':
            # ... and removes it: os.getcwd() raises FileNotFoundError from
            # now on (setUp: mkdtemp + chdir, tearDown: rmtree)
            import tempfile
            d = tempfile.mkdtemp(prefix='vt-rmcwd-', dir=os.environ.get('VT_SCRATCH_RUN') or '/dev/shm')
            os.chdir(d)
            os.rmdir(d)
            return
        if s == 'settrace':
            def _tracer(frame, event, arg):
                return None
            sys.settrace(_tracer)
            sys.settrace(None)
            return
        if s == 'warnfilter':
            import warnings
            warnings.simplefilter('error', ResourceWarning)
            warnings.filterwarnings('ignore', category=DeprecationWarning, module='vtw')
            return
        if s.startswith('sub:'):
            nf, ne, np_ = (int(x) for x in s[4:].split(','))
            k = 0
            for i in range(nf):
                with self.subTest(*([vt['subm']] if 'subm' in vt else []), i=k, **(vt.get('subp') or {})):
                    emit('t', vt['n'], 'sub', k, 'f')
                    k += 1
                    self.fail('subfail %d' % i)
            for i in range(ne):
                with self.subTest(i=k):
                    emit('t', vt['n'], 'sub', k, 'e')
                    k += 1
                    raise mkexc(vt.get('e', 'ValueError'), 'suberr %d' % i)
            for i in range(np_):
                with self.subTest(i=k):
                    emit('t', vt['n'], 'sub', k, 'p')
                    k += 1
                    if vt.get('wsub'):
                        emit('t', vt['n'], 'wsub')
                        _do_writes(vt['wsub'])
            return
        raise AssertionError('unknown script %r' % (s,))


def make_test_class(t, modname, layers):
    name = t['n']
    mname = 'test_' + t.get('mn', name)

    def method(self):
        return self._body()
    method.__name__ = mname
    method.__qualname__ = 'T_%s.%s' % (name, mname)
    s = t['s']
    if s == 'skip_dec':
        method = unittest.skip('decorated')(method)
    elif s in ('xfail', 'uxs'):
        method = unittest.expectedFailure(method)
    # t['tm']: the test class lives in another module than the layers
    ns = {'__module__': t.get('tm') or modname, '_vt': t, mname: method}
    cname = t.get('cls') or ('T_' + name)
    li = t.get('li')
    if t.get('l') is not None and li is None:
        ns['layer'] = layers[t['l']] if not t.get('lstr') else (modname + '.' + t['l'])
    if t.get('lv') is not None and li is None:
        ns['level'] = t['lv']
    if t.get('falsyt'):
        # test case objects that are falsy (a container mixin with __len__,
        # a __bool__ that reports some state)
        if t['falsyt'] == 'len':
            ns['__len__'] = lambda self: 0
        else:
            ns['__bool__'] = lambda self: False
    cls = type(cname, (VTCase,), ns)
    if s == 'skip_cls':
        cls = unittest.skip('class skipped')(cls)
    return cls, mname


# -------------------------------------------------------------- doctest cases
# t['dt'] = 'string' (DocTestCase) | 'file' (DocFileCase); t['dname'] is the
# doctest's dotted name (DocTestCase) / t['dfile'] its file path (DocFileCase);
# t['s'] in {'pass', 'fail'}; t['dk'] how a failing one fails: 'diff' (output
# differs, t['msg'] in the expected and the actual output) or 'exc' (the
# example raises ValueError(t['msg'])).

import doctest


def _dt_emit(*ev):
    emit(*ev)


class _DTMixin:
    _vt = None

    def run(self, result=None):
        emit('t', self._vt['n'], 'run>')
        try:
            return super().run(result)
        finally:
            emit('t', self._vt['n'], 'run<')


class VTDocTestCase(_DTMixin, doctest.DocTestCase):
    pass


class VTDocFileCase(_DTMixin, doctest.DocFileCase):
    pass


def doctest_source(t):
    msg = t.get('msg') or 'text'
    src = '>>> vt_emit("t", %r, "body")\n' % t['n']
    if t['s'] == 'pass':
        src += '>>> print(vt_msg)\n%s\n' % (msg.replace('\n', ' ') or 'x')
    elif t.get('dk', 'diff') == 'diff':
        src += '>>> print("got", vt_msg)\nwant %s\n' % (msg.replace('\n', ' '))
    else:
        src += '>>> raise ValueError(vt_msg)\nnothing\n'
    return src


def doctest_name(t, modname=None):
    """The dotted name (DocTestCase) / the file path (DocFileCase)."""
    if t['dt'] == 'file':
        return t.get('dfile') or ('/vtw/test_%s.txt' % t['n'])
    return t.get('dname') or ('%s.test_d_%s' % (modname or MOD, t['n']))


def make_doctest(t, modname, layers):
    msg = t.get('msg') or 'text'
    globs = {'vt_emit': _dt_emit, 'vt_msg': msg if t['s'] != 'pass' else (msg.replace('\n', ' ') or 'x')}
    kind = t['dt']
    if kind == 'file':
        path = doctest_name(t, modname)
        name = os.path.basename(path)
        dt = doctest.DocTestParser().get_doctest(doctest_source(t), globs, name, path, 0)
        case = VTDocFileCase(dt)
    else:
        name = doctest_name(t, modname)
        dt = doctest.DocTestParser().get_doctest(doctest_source(t), globs, name, '/vtw/tests.py', 0)
        case = VTDocTestCase(dt)
    case._vt = t
    if t.get('l') is not None:
        case.layer = layers[t['l']]
    if t.get('lv') is not None:
        case.level = t['lv']
    return case


class Built:
    __slots__ = ('spec', 'layers', 'tests', 'suites', 'module', 'modname')


def _resolve_li(t, layers, modname):
    li = t.get('li')
    if li is None:
        return
    out = {}
    if li.get('l') is not None:
        out['l'] = layers[li['l']]
    if li.get('lv') is not None:
        out['lv'] = li['lv']
    t['li'] = out


def build(spec):
    modname = spec.get('mod') or MOD
    layers = make_layers(spec.get('layers') or (), modname)
    tests = {}
    order = []
    for t in spec['tests']:
        t = dict(t)
        if t.get('dt'):
            inst = make_doctest(t, modname, layers)
            tests[t['n']] = inst
            order.append(inst)
            continue
        _resolve_li(t, layers, modname)
        if t.get('shcls') and t['shcls'] in tests:
            # a second test object of the class of test t['shcls']
            cls = type(tests[t['shcls']])
            mname = 'test_' + t.get('mn', t['n'])

            def method(self):
                return self._body()
            method.__name__ = mname
            setattr(cls, mname, method)
            if cls._vt_by_method is None:
                cls._vt_by_method = {}
            cls._vt_by_method[mname] = t
            inst = cls(mname)
            tests[t['n']] = inst
            order.append(inst)
            continue
        cls, mname = make_test_class(t, modname, layers)
        inst = cls(mname)
        tests[t['n']] = inst
        order.append(inst)
    tree = spec.get('tree')

    def mk(node):
        if 't' in node:
            return tests[node['t']]
        s = unittest.TestSuite()
        if node.get('l') is not None:
            s.layer = (layers[node['l']] if not node.get('lstr')
                       else modname + '.' + node['l'])
        if node.get('lv') is not None:
            s.level = node['lv']
        for c in node['c']:
            s.addTest(mk(c))
        return s
    if tree is None:
        s = unittest.TestSuite()
        for inst in order:
            s.addTest(inst)
        suites = [s]
    else:
        suites = [mk(n) for n in tree]
    for bm in spec.get('bad_modules') or ():
        suites.append(_startup_failure(bm))
    b = Built()
    b.spec = spec
    b.layers = layers
    b.tests = tests
    b.suites = suites
    b.modname = modname
    m = types.ModuleType(modname)
    for k, v in layers.items():
        setattr(m, k, v)
    for L in spec.get('layers') or ():
        if L.get('shadow'):
            # the module attribute of that name is ANOTHER object (the layer
            # is nested in a class / made by a factory / re-bound later)
            d = InstLayer(L.get('rn') or L['n'], L.get('m') or modname, ())
            for hk in ('setUp', 'tearDown', 'testSetUp', 'testTearDown'):
                setattr(d, hk, functools.partial(_decoy_hook, L['n'], hk))
            setattr(m, L.get('rn') or L['n'], d)
    for inst in order:
        if not isinstance(inst, _DTMixin):
            setattr(m, type(inst).__name__, type(inst))
    b.module = m
    return b


class _Opt:
    post_mortem = False


def _startup_failure(name):
    from zope.testrunner.find import StartUpFailure
    try:
        raise ImportError('cannot import %s (injected)' % name)
    except ImportError:
        ei = sys.exc_info()
    return StartUpFailure(_Opt, name, ei[:2] + (None,))


def install(built):
    """Register the world's module in sys.modules; returns an undo token."""
    modname = built.modname
    prev = {}
    parts = modname.split('.')
    for i in range(1, len(parts)):
        pk = '.'.join(parts[:i])
        prev[pk] = sys.modules.get(pk)
        if pk not in sys.modules:
            pm = types.ModuleType(pk)
            pm.__path__ = []
            sys.modules[pk] = pm
    prev[modname] = sys.modules.get(modname)
    sys.modules[modname] = built.module
    if len(parts) > 1:
        setattr(sys.modules['.'.join(parts[:-1])], parts[-1], built.module)
    return prev


def uninstall(prev):
    for k, v in prev.items():
        if v is None:
            sys.modules.pop(k, None)
        else:
            sys.modules[k] = v


# ------------------------------------------------------------------ on disk

DISK_TESTS = '''\
import json, unittest
from vt import worldrt
worldrt._open_trace()
worldrt.emit('import', __name__)
_SPEC = json.loads(%r)
exec(_SPEC.get('prelude') or '')        # what the module does at import time
if _SPEC.get('import_die') and worldrt.in_child():
    import sys as _s
    _l = _SPEC.get('import_die_layer')
    if not _l or _s.argv[_s.argv.index('--resume-layer') + 1].endswith('.' + _l):
        worldrt.die(_SPEC['import_die'])
_B = worldrt.build(_SPEC)
for _k, _v in vars(_B.module).items():
    if not _k.startswith('__'):
        globals()[_k] = _v
def test_suite():
    s = unittest.TestSuite()
    for x in _B.suites:
        s.addTest(x)
    return s
'''


def write_disk(spec, root, extra_files=None):
    """root/<pkg>/tests.py for mod '<pkg>.tests'."""
    modname = spec.get('mod') or MOD
    pkg, leaf = modname.rsplit('.', 1)
    d = os.path.join(root, *pkg.split('.'))
    os.makedirs(d, exist_ok=True)
    p = root
    for part in pkg.split('.'):
        p = os.path.join(p, part)
        with open(os.path.join(p, '__init__.py'), 'w') as f:
            f.write('')
    with open(os.path.join(d, leaf + '.py'), 'w') as f:
        f.write(DISK_TESTS % json.dumps(spec))
    for rel, content in (extra_files or {}).items():
        fp = os.path.join(root, rel)
        os.makedirs(os.path.dirname(fp), exist_ok=True)
        with open(fp, 'w') as f:
            f.write(content)
    return root


def read_trace(path):
    out = []
    if not os.path.exists(path):
        return out
    with open(path) as f:
        for line in f:
            line = line.strip()
            if line:
                out.append(tuple(json.loads(line)))
    return out


# ------------------------------------------------------------ spec utilities

def closure(spec_layers, name):
    """name + transitive bases (set of names)."""
    by = {L['n']: L for L in spec_layers}
    out = set()
    stack = [name]
    while stack:
        n = stack.pop()
        if n in out:
            continue
        out.add(n)
        stack.extend(by[n].get('b') or ())
    return out


def test_id(t, modname=None):
    modname = modname or MOD
    cname = t.get('cls') or ('T_' + t['n'])
    return 'test_%s (%s.%s.test_%s)' % (t['n'], modname, cname, t['n'])


# ------------------------------------------------------- virtual thread table
# C19 owns the environment the runner's thread bookkeeping looks at: which
# thread idents are running (sys._current_frames), what ``threading`` knows
# (threading.enumerate) and - the part the OS decides - whether a new thread
# gets a fresh ident or the ident of a thread that has just ended.

class VThread:
    """What threading.enumerate() returns for a virtual thread."""

    def __init__(self, ident, name, dummy=False):
        self.ident = ident
        self.name = name
        self._alive = True
        self._dummy = dummy      # threading._DummyThread of a _thread thread
        self.daemon = True

    _falsy = False

    def __bool__(self):
        return not self._falsy

    def is_alive(self):
        # CPython 3.12: a _DummyThread reports alive for ever
        return True if self._dummy else self._alive

    def __repr__(self):
        return '<%s(%s, started daemon %d)>' % (
            '_DummyThread' if self._dummy else 'Thread', self.name, self.ident)


class VTable:
    def __init__(self, policy):
        self.policy = policy          # 'fresh' | 'recycle'
        self.next = 1000001
        self.free = []                # idents of ended threads, most recent last
        self.alive = {}               # ident -> tid
        self.known = {}               # ident -> VThread (threading's registry)
        self.recs = {}                # tid -> rec
        self.reused = 0

    def _ident(self):
        if self.policy == 'recycle' and self.free:
            self.reused += 1
            return self.free.pop()
        self.next += 1
        return self.next

    def start(self, api, name, tid, blocked, touch):
        ident = self._ident()
        falsy = name.startswith('falsy:')
        if falsy:
            # a Thread subclass whose instances are falsy (a worker that is
            # also the - currently empty - queue of its jobs)
            name = name[6:]
        rec = {'ident': ident, 'name': name, 'api': api, 'blocked': blocked,
               'touch': touch, 'ended': False}
        self.recs[tid] = rec
        self.alive[ident] = tid
        if api == 'threading':
            self.known[ident] = VThread(ident, name or 'Thread-%s' % tid)
            self.known[ident]._falsy = falsy
        elif touch:
            self.known[ident] = VThread(ident, 'Dummy-%s' % tid, dummy=True)
        if not blocked:
            self._end(tid)
        emit('th', 'started', tid, ident, api, name, blocked)

    def _end(self, tid):
        rec = self.recs[tid]
        if rec['ended']:
            return
        rec['ended'] = True
        ident = rec['ident']
        self.alive.pop(ident, None)
        th = self.known.get(ident)
        if th is not None:
            if th._dummy:
                pass                      # stays registered, "alive"
            else:
                th._alive = False
                del self.known[ident]
        self.free.append(ident)

    def release(self, tid):
        rec = self.recs.get(tid)
        if rec is None or rec['ended']:
            return
        self._end(tid)
        emit('th', 'released', tid, rec['ident'])

    def touch(self, tid):
        """A running low-level thread calls threading.current_thread() (any
        logging call does): from now on threading knows it as a _DummyThread
        with a name of its own - same thread, same ident, another name."""
        rec = self.recs.get(tid)
        if rec is None or rec['ended'] or rec['api'] == 'threading':
            return
        self.known[rec['ident']] = VThread(rec['ident'], 'Dummy-registered-%s' % tid, dummy=True)
        emit('th', 'touched', tid, rec['ident'])

    # ---- what the runner sees
    def current_frames(self):
        d = dict(sys._current_frames())
        fr = sys._getframe()
        for ident in self.alive:
            d[ident] = fr
        return d

    def enumerate(self):
        out = list(threading.enumerate())
        # a recycled ident now belongs to the new thread
        for ident, th in self.known.items():
            out.append(th)
        return out


class _VThreadingShim:
    def __init__(self, table):
        self._t = table

    def enumerate(self):
        return self._t.enumerate()

    def __getattr__(self, k):
        return getattr(threading, k)


VTABLE = None


def install_vthreads(policy):
    """Point zope.testrunner.threadsupport at a virtual thread table."""
    global VTABLE
    import zope.testrunner.threadsupport as TS
    VTABLE = VTable(policy)
    saved = (TS.current_frames, TS.threading)
    TS.current_frames = VTABLE.current_frames
    TS.threading = _VThreadingShim(VTABLE)
    return saved


def uninstall_vthreads(saved):
    global VTABLE
    import zope.testrunner.threadsupport as TS
    TS.current_frames, TS.threading = saved
    VTABLE = None
