"""Enumerators for the finite alphabets shared by several checks.
Everything here is a complete enumeration of a stated bound, ordered simplest
first.  ``rot(seq, seed)`` only rotates the order (VERIF_SEED never changes
*which* cases exist)."""
import itertools

HOOKS_SD = ['setUp', 'tearDown']
HOOKS_ALL = ['setUp', 'tearDown', 'testSetUp', 'testTearDown']


def rot(seq, seed):
    seq = list(seq)
    if not seq or not seed:
        return seq
    k = seed % len(seq)
    return seq[k:] + seq[:k]


def ordered_subsets(items, maxk=None):
    """All ordered subsets (= tuples without repetition), shortest first."""
    items = list(items)
    maxk = len(items) if maxk is None else min(maxk, len(items))
    for k in range(maxk + 1):
        for c in itertools.permutations(items, k):
            yield c


def dags(n, max_bases=None):
    """Every DAG with *ordered* bases on nodes 0..n-1 in topological order:
    node i picks an ordered subset of nodes < i.  Yields tuples of tuples."""
    def rec(i, acc):
        if i == n:
            yield tuple(acc)
            return
        for bs in ordered_subsets(range(i), max_bases):
            acc.append(bs)
            yield from rec(i + 1, acc)
            acc.pop()
    yield from rec(0, [])


def c3_ok(graph):
    """Can this graph be realised with Python classes (C3 linearisation)?"""
    objs = []
    try:
        for i, bs in enumerate(graph):
            objs.append(type('N%d' % i, tuple(objs[b] for b in bs) or (object,), {}))
    except TypeError:
        return False
    return True


NAMINGS = {
    'fwd': 'ABCDEFGH',
    'rev': 'HGFEDCBA',
}


# hand-picked graphs on 5 and 6 layers (beyond the exhaustive node bound): a
# diamond whose shared base has a base of its own plus an unrelated last base,
# stacked diamonds, a layer reached on three paths
DEEP_GRAPHS = [
    [[], [0], [0], [], [1, 2, 3]],
    [[], [0], [1], [1], [], [2, 3, 4]],
    [[], [0], [0], [1, 2], [3], [4, 3]],
    [[], [], [0], [0, 1], [2, 3], [4, 1]],
    [[], [0], [0], [0], [1, 2], [4, 3]],
]


def names_for(n, naming):
    if naming == 'fwd':
        return list('ABCDEFGH'[:n])
    if naming == 'rev':
        return list('ABCDEFGH'[:n])[::-1]
    if isinstance(naming, (list, tuple)):
        # a permutation: node i (topological index) is called 'ABC..'[naming[i]]
        return ['ABCDEFGH'[k] for k in naming]
    raise ValueError(naming)


def layer_specs(graph, kind, names, hooks, faults=None):
    """graph -> spec 'layers' list.  ``hooks``: list per node of hook lists;
    ``faults``: {node: {hook: exc}}."""
    out = []
    for i, bs in enumerate(graph):
        k = kind if isinstance(kind, str) else kind[i]
        L = {'n': names[i], 'b': [names[b] for b in bs], 'k': k,
             'h': list(hooks[i])}
        f = (faults or {}).get(i)
        if f:
            L['f'] = dict(f)
        out.append(L)
    return out


def closure_idx(graph, i):
    out = set()
    st = [i]
    while st:
        x = st.pop()
        if x in out:
            continue
        out.add(x)
        st.extend(graph[x])
    return out


def nonempty_subsets(n):
    for m in range(1, 1 << n):
        yield [i for i in range(n) if (m >> i) & 1]


def fault_placements(nodes_with_hooks, menu, maxf):
    """All assignments of <= maxf faults; each fault = (node, hook, exc); at
    most one fault per (node, hook).  Deviation order: 0 faults, 1, 2 ..."""
    slots = []
    for node in nodes_with_hooks:
        for hook, exc in menu:
            slots.append((node, hook, exc))
    for k in range(maxf + 1):
        for combo in itertools.combinations(slots, k):
            keys = {(c[0], c[1]) for c in combo}
            if len(keys) != len(combo):
                continue
            d = {}
            for node, hook, exc in combo:
                d.setdefault(node, {})[hook] = exc
            yield d


# outcome kinds understood by worldrt.VTCase, with the result events each one
# produces on the interpreter of this sandbox:  (failures, errors, skips,
# is_bad, starts)  -- "starts" = unittest calls startTest before the outcome
OUTCOMES = {
    'pass':          (0, 0, 0, False),
    'fail':          (1, 0, 0, True),
    'error':         (0, 1, 0, True),
    'skip_dec':      (0, 0, 1, False),
    'skip_cls':      (0, 0, 1, False),
    'skip_setup':    (0, 0, 1, False),
    'skip_body':     (0, 0, 1, False),
    'xfail':         (0, 0, 0, False),
    'uxs':           (1, 0, 0, True),
    'setup_err':     (0, 1, 0, True),
    'teardown_err':  (0, 1, 0, True),
    'body+teardown': (0, 2, 0, True),
    'fail+teardown': (1, 1, 0, True),
    'cleanup_err':   (0, 1, 0, True),
    'sysexit':       (0, 1, 0, True),
    'sub:1,0,1':     (1, 0, 0, True),
    'sub:2,0,0':     (2, 0, 0, True),
    'sub:1,1,0':     (1, 1, 0, True),
    'sub:0,1,1':     (0, 1, 0, True),
    'sub:0,0,2':     (0, 0, 0, False),
}


def outcome_counts(script):
    if script in OUTCOMES:
        return OUTCOMES[script]
    if script.startswith('sub:'):
        nf, ne, np_ = (int(x) for x in script[4:].split(','))
        return (nf, ne, 0, bool(nf or ne))
    raise KeyError(script)
