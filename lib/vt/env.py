"""Process bootstrap shared by every check.

* puts /repo/src first on sys.path and repairs the ``zope`` namespace
  (same logic as /verif/boot/sitecustomize.py, which is what child
  processes get through PYTHONPATH);
* silences the pkg_resources deprecation noise;
* exposes paths and the scratch-directory helper.
"""
import os
import shutil
import sys
import tempfile
import warnings

VERIF = os.path.dirname(os.path.dirname(os.path.dirname(os.path.abspath(__file__))))
REPO = os.environ.get('VT_REPO', '/repo')
REPO_SRC = os.path.join(REPO, 'src')
BOOT = os.path.join(VERIF, 'boot')
LIB = os.path.join(VERIF, 'lib')
PY = '/venv/bin/python'

_SCRATCH_ROOT = '/dev/shm' if os.path.isdir('/dev/shm') else tempfile.gettempdir()


def bootstrap():
    os.environ['VT_REPO_SRC'] = REPO_SRC
    os.environ.setdefault('PYTHONDONTWRITEBYTECODE', '1')
    sys.dont_write_bytecode = True
    warnings.filterwarnings('ignore', message='pkg_resources is deprecated')
    if BOOT not in sys.path:
        sys.path.insert(0, BOOT)
    import importlib
    if 'sitecustomize' in sys.modules:
        importlib.reload(sys.modules['sitecustomize'])
    else:
        import sitecustomize  # noqa: F401
    if LIB not in sys.path:
        sys.path.insert(0, LIB)
    os.environ.pop('VT_SCRATCH_RUN', None)
    _run_root()


def child_env(extra=None):
    """Environment for real CLI runs of the runner (and its own children)."""
    env = dict(os.environ)
    pp = [BOOT, LIB]
    env['PYTHONPATH'] = os.pathsep.join(pp)
    env['VT_REPO_SRC'] = REPO_SRC
    env['PYTHONDONTWRITEBYTECODE'] = '1'
    env['PYTHONWARNINGS'] = 'ignore::UserWarning'
    env.setdefault('PYTHONHASHSEED', '0')
    env.pop('COLUMNS', None)
    env['TERM'] = 'dumb'
    if extra:
        env.update(extra)
    return env


def _run_root():
    """One scratch root per check run, removed when the main process exits
    (pool workers leave through os._exit, so their own atexit hooks never
    run; they inherit the root through the environment)."""
    root = os.environ.get('VT_SCRATCH_RUN')
    if root and os.path.isdir(root):
        return root
    root = tempfile.mkdtemp(prefix='vtrun-%d-' % os.getpid(), dir=_SCRATCH_ROOT)
    os.environ['VT_SCRATCH_RUN'] = root
    import atexit
    owner = os.getpid()

    def _clean():
        if os.getpid() == owner:
            shutil.rmtree(root, ignore_errors=True)
    atexit.register(_clean)
    return root


def scratch(prefix='vt'):
    return tempfile.mkdtemp(prefix='%s-%d-' % (prefix, os.getpid()),
                            dir=_run_root())


def rmtree(path):
    shutil.rmtree(path, ignore_errors=True)
