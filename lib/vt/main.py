"""``/verif/check <ID> [--tier quick|thorough] [--replay PATH]``"""
import argparse
import importlib
import os
import sys

HERE = os.path.dirname(os.path.abspath(__file__))
sys.path.insert(0, os.path.dirname(HERE))

from vt import env  # noqa: E402

env.bootstrap()
if os.environ.get('VT_ONE_CPU'):
    # an environment pass: a machine / container / batch slot with one usable CPU
    os.sched_setaffinity(0, {sorted(os.sched_getaffinity(0))[0]})

from vt import explore  # noqa: E402


def main(argv=None):
    ap = argparse.ArgumentParser()
    ap.add_argument('prop')
    ap.add_argument('--tier', default=os.environ.get('VERIF_TIER') or 'quick',
                    choices=['quick', 'thorough'])
    ap.add_argument('--replay')
    ap.add_argument('--seed', type=int,
                    default=int(os.environ.get('VERIF_SEED') or 0))
    args = ap.parse_args(argv)
    pid = args.prop.upper()
    try:
        mod = importlib.import_module('vt.props.' + pid.lower())
    except Exception:
        import traceback
        traceback.print_exc()
        print('HARNESS-ERROR property=%s cannot import check module' % pid)
        return 2
    if args.replay:
        return explore.replay(mod, args.replay)
    if hasattr(mod, 'main'):
        return mod.main(args.tier, args.seed)
    return explore.run_check(mod, args.tier, args.seed)


if __name__ == '__main__':
    sys.exit(main())
