"""Enumeration driver: sharding over long-lived workers, aggregation,
determinism gate, known-finding matching, replay artefacts and evidence.

A property module provides

    ID, LEVEL, RULE, ASSUMPTIONS
    cases(tier, seed)      -> iterator of JSON-able cases (simplest first)
    run_case(case)         -> dict (see ``_norm``)
    setup_worker()         -> optional, once per worker after fork
    finish(agg, tier)      -> optional, extra global oracle over ``agg.extra``
    history_cases(tier)    -> optional, a short list of cases that differ in
                              the options / objects they use; every ordered
                              pair (X, Y) is run as X then Y in one process
                              and Y is judged by run_case as usual (a second
                              run of the programmatic API must not inherit
                              anything from the first)
    history_key(case)      -> optional alternative: a small hashable (or None);
                              the first enumerated case of each key becomes a
                              history case (at most HISTORY_MAX, default 8)
    BOUND[tier]            -> text describing the completed bound

``run_case`` result keys (all optional except none):
    evals        number of executions this case stands for (default 1)
    nontrivial   True/False for a single case, or an int for block cases
                 whose members are distinct by construction
    violations   list of {clause, sig, detail} (sig: small dict used for
                 known-finding matching and de-duplication)
    states / transitions   iterables of hashables (monitor states visited)
    outcome      hashable — distinct terminal outcomes are counted (vacuity)
    counters     {name: int}
    extra        anything picklable, handed to ``finish`` (kept small!)
"""
import collections
import hashlib
import itertools
import json
import multiprocessing
import os
import sys
import time
import traceback

from . import env
from .hang import RunHang as runrt_RunHang

NPROC = int(os.environ.get('VT_NPROC', '0')) or min(16, os.cpu_count() or 4)
CHUNK = 64


def canon(obj):
    return json.dumps(obj, sort_keys=True, separators=(',', ':'), default=repr)


def h64(obj):
    if not isinstance(obj, (str, bytes)):
        obj = canon(obj)
    if isinstance(obj, str):
        obj = obj.encode('utf-8', 'surrogatepass')
    return int.from_bytes(hashlib.blake2b(obj, digest_size=8).digest(), 'big')


class HarnessError(Exception):
    pass


# ---------------------------------------------------------------- worker side

_MOD = None


_INIT_ERROR = None


def _init_worker(modname):
    # an exception here would make multiprocessing.Pool respawn workers for
    # ever (the run would hang): remember it, every chunk then reports it
    global _MOD, _INIT_ERROR
    try:
        import importlib
        _MOD = importlib.import_module(modname)
        if hasattr(_MOD, 'setup_worker'):
            _MOD.setup_worker()
    except BaseException:
        _INIT_ERROR = traceback.format_exc()
        return
    import gc
    gc.collect()
    gc.freeze()


def _strip(res):
    """A result with volatile parts removed, for the determinism gate."""
    return canon({
        'v': [(v.get('clause'), v.get('sig')) for v in res.get('violations') or ()],
        'o': res.get('outcome'),
        'e': res.get('evals', 1),
        'd': res.get('det'),
    })


def run_one(mod, case):
    """run_case, or for ['__after__', X, Y]: X (not judged), then Y (judged)."""
    if isinstance(case, (list, tuple)) and len(case) == 3 and case[0] == '__after__':
        mod.run_case(case[1])
        res = dict(mod.run_case(case[2]) or {})
        if res.get('violations'):
            res['violations'] = [
                dict(v, sig=dict(v.get('sig') or {}, after_another_run=True),
                     detail='(second run in one process; the run before it was %s)\n%s'
                            % (canon(case[1])[:600], v.get('detail') or ''))
                for v in res['violations']]
        res['counters'] = dict(res.get('counters') or {}, history_pairs=1)
        res['outcome'] = ('after', canon(res.get('outcome')))
        return res
    return mod.run_case(case)


def _work(args):
    chunk, gate = args
    out = {
        'evals': 0, 'cases': 0, 'nt_keys': [], 'nt_count': 0,
        'states': set(), 'transitions': set(),
        'outcomes': collections.Counter(), 'counters': collections.Counter(),
        'vclasses': {}, 'extra': [], 'harness': [], 'samples': [],
    }
    if _INIT_ERROR:
        out['harness'].append('the worker could not be set up (the implementation under /repo/src cannot be imported?):\n' + _INIT_ERROR)
        return out
    for case in chunk:
        try:
            res = run_one(_MOD, case) or {}
            if (gate or res.get('violations')) and not res.get('nogate'):
                res2 = run_one(_MOD, case) or {}
                if _strip(res) != _strip(res2):
                    if res.get('violations') or res2.get('violations'):
                        # the same case judged differently the second time in
                        # the same process: what ran before leaks into the
                        # result.  Never seen on the unchanged tree (the gate
                        # would stop the run); after a change to the code it is
                        # a defect of that change, reported with the
                        # violations either execution produced.
                        vs = list(res.get('violations') or ()) + list(res2.get('violations') or ())
                        res = dict(res, violations=[
                            dict(v, sig=dict(v.get('sig') or {}, history_dependent=True),
                                 detail='(the same case gave a different result when executed a second time in the same process)\n' + str(v.get('detail') or ''))
                            for v in vs])
                    else:
                        out['harness'].append(
                            'nondeterministic case %s:\n  %s\n  %s'
                            % (canon(case)[:2000], _strip(res)[:2000],
                               _strip(res2)[:2000]))
                        continue
        except runrt_RunHang as e:
            res = {'violations': [{
                'clause': 'run_does_not_terminate', 'sig': {},
                'detail': 'the in-process run (inline threads, atomic children: every poll iteration is deterministic) kept polling: %s' % str(e)[-2500:]}],
                'outcome': 'run hangs'}
        except Exception as e:
            tb = traceback.extract_tb(e.__traceback__)
            if tb and tb[-1].filename.startswith(env.REPO_SRC):
                # raised inside the implementation and not contained by it:
                # the check's own oracle never got to judge the case
                res = {'violations': [{
                    'clause': 'exception_escaped_from_implementation',
                    'sig': {'exc': type(e).__name__,
                            'where': '%s:%s' % (os.path.basename(tb[-1].filename), tb[-1].name)},
                    'detail': traceback.format_exc()[-2500:]}],
                    'outcome': 'implementation raised'}
            else:
                out['harness'].append('exception in harness for case %s\n%s'
                                      % (canon(case)[:2000], traceback.format_exc()))
                continue
        out['cases'] += 1
        out['evals'] += res.get('evals', 1)
        nt = res.get('nontrivial', True)
        if nt is True:
            out['nt_keys'].append(h64(case))
        elif nt:
            out['nt_count'] += int(nt)
        for s in res.get('states') or ():
            out['states'].add(s if isinstance(s, int) else h64(s))
        for s in res.get('transitions') or ():
            out['transitions'].add(s if isinstance(s, int) else h64(s))
        if 'outcome' in res:
            out['outcomes'][canon(res['outcome'])[:300]] += 1
        for k, v in (res.get('counters') or {}).items():
            out['counters'][k] += v
        for v in res.get('violations') or ():
            key = canon([v.get('clause'), v.get('sig')])
            if key not in out['vclasses']:
                if len(out['vclasses']) < 2000:
                    v = dict(v)
                    v.setdefault('case', case)
                    out['vclasses'][key] = [v, 1]
            else:
                out['vclasses'][key][1] += 1
        if res.get('violations'):
            out['counters']['violating_executions'] += 1
        if 'extra' in res:
            out['extra'].append(res['extra'])
        if 'sample' in res and len(out['samples']) < 2:
            out['samples'].append(res['sample'])
    return out


# ---------------------------------------------------------------- parent side

class Agg:
    def __init__(self):
        self.evals = 0
        self.cases = 0
        self.nt = set()
        self.nt_count = 0
        self.states = set()
        self.transitions = set()
        self.outcomes = collections.Counter()
        self.counters = collections.Counter()
        self.violations = []      # extra ones from mod.finish()
        self.vclasses = {}
        self.extra = []
        self.harness = []
        self.samples = []
        self.rich_samples = []

    def add(self, out):
        self.evals += out['evals']
        self.cases += out['cases']
        self.nt.update(out['nt_keys'])
        self.nt_count += out['nt_count']
        self.states |= out['states']
        self.transitions |= out['transitions']
        self.outcomes.update(out['outcomes'])
        self.counters.update(out['counters'])
        for key, (v, n) in out['vclasses'].items():
            cur = self.vclasses.get(key)
            if cur is None:
                if len(self.vclasses) < 20000:
                    self.vclasses[key] = [v, n]
            else:
                cur[1] += n
        self.extra.extend(out['extra'])
        self.harness.extend(out['harness'])
        if len(self.rich_samples) < 4:
            self.rich_samples.extend(out['samples'])


def _chunks(it, n):
    it = iter(it)
    while True:
        c = list(itertools.islice(it, n))
        if not c:
            return
        yield c


def load_known():
    p = os.path.join(env.VERIF, 'known_findings.json')
    if not os.path.exists(p):
        return []
    with open(p) as f:
        data = json.load(f)
    return data.get('findings', [])


def match_known(pid, v, known):
    for k in known:
        if k['property'] != pid or k['clause'] != v.get('clause'):
            continue
        sig = v.get('sig') or {}
        if all(sig.get(a) == b for a, b in (k.get('match') or {}).items()):
            return k
    return None


def write_replay(pid, v):
    d = os.path.join(env.VERIF, 'replays', pid)
    os.makedirs(d, exist_ok=True)
    body = {'property': pid, 'clause': v.get('clause'), 'sig': v.get('sig'),
            'detail': v.get('detail'), 'case': v.get('case')}
    if v.get('env_pass') is not None:
        body['env_pass'] = v['env_pass']
    name = '%016x.json' % h64({'c': body['clause'], 's': body['sig'],
                               'k': body['case']})
    path = os.path.join(d, name)
    with open(path, 'w') as f:
        json.dump(body, f, indent=1, sort_keys=True, default=repr)
    return path


# ------------------------------------------------------------ environment passes
# A module may declare  ENV_PASSES = [{'name': 'python -O', 'argv': ['-O'],
# 'env': {...}, 'filter': fn(case) -> bool}, ...]: the selected cases are run
# once more in a child interpreter started with those flags / that environment
# (what `assert` compiles to, the locale's encoding ... are properties of the
# whole interpreter).  Results are merged into the parent's aggregation; every
# violation class found there carries env=<name> in its signature.

def _run_env_passes(mod, tier, seed, agg):
    import pickle
    import subprocess
    if os.environ.get('VT_ENV_PASS'):
        return
    for i, ep in enumerate(getattr(mod, 'ENV_PASSES', None) or ()):
        tmp = os.path.join(env.scratch('vtenv'), 'agg.pickle')
        e = dict(os.environ)
        e.update(ep.get('env') or {})
        e['VT_ENV_PASS'] = str(i)
        e['VT_ENV_PASS_OUT'] = tmp
        cmd = [env.PY] + list(ep.get('argv') or []) + [os.path.join(env.LIB, 'vt', 'main.py'), mod.ID,
                                                       '--tier', tier, '--seed', str(seed)]
        p = subprocess.run(cmd, env=e, stdout=subprocess.PIPE, stderr=subprocess.STDOUT)
        if not os.path.exists(tmp):
            agg.harness.append('environment pass %r produced no result (exit %s)\n%s'
                               % (ep['name'], p.returncode, p.stdout.decode('utf-8', 'replace')[-2000:]))
            continue
        with open(tmp, 'rb') as f:
            sub = pickle.load(f)
        agg.evals += sub['evals']
        agg.cases += sub['cases']
        agg.nt_count += sub['nt']
        agg.counters['executions_in_env_pass_%s' % ep['name'].replace(' ', '_')] += sub['evals']
        agg.harness.extend(sub['harness'])
        for key, (v, n) in sub['vclasses'].items():
            v = dict(v)
            v['sig'] = dict(v.get('sig') or {}, env=ep['name'])
            v['detail'] = '(in a child interpreter: %s %s)\n%s' % (' '.join(ep.get('argv') or []), ep.get('env') or '', v.get('detail') or '')
            v['env_pass'] = i
            k2 = canon([v.get('clause'), v['sig']])
            if k2 not in agg.vclasses:
                agg.vclasses[k2] = [v, n]
            else:
                agg.vclasses[k2][1] += n


def _env_pass_filter(mod):
    i = os.environ.get('VT_ENV_PASS')
    if i is None:
        return None
    return (getattr(mod, 'ENV_PASSES')[int(i)]).get('filter') or (lambda c: True)


def run_check(mod, tier, seed, chunk=None, gate_n=48):
    t0 = time.time()
    pid = mod.ID
    budget = getattr(mod, 'BUDGET', {}).get(tier)
    chunk = chunk or getattr(mod, 'CHUNK', CHUNK)
    agg = Agg()
    capped = None
    ctx = multiprocessing.get_context('fork')
    nproc = getattr(mod, 'NPROC', NPROC)
    gen = mod.cases(tier, seed)
    flt = _env_pass_filter(mod)
    if flt is not None:
        gen = (c for c in gen if flt(c))
    elif hasattr(mod, 'history_cases') or hasattr(mod, 'history_key'):
        hs = list(mod.history_cases(tier)) if hasattr(mod, 'history_cases') else []
        if hasattr(mod, 'history_key'):
            # the first case of the enumeration for each key the module names
            # (at most HISTORY_MAX of them, looked for among the first 400 000)
            picked = {}
            hmax = getattr(mod, 'HISTORY_MAX', 8)
            for n_, c_ in enumerate(mod.cases(tier, seed)):
                k_ = mod.history_key(c_)
                if k_ is not None and k_ not in picked:
                    picked[k_] = c_
                    if len(picked) >= hmax:
                        break
                if n_ > 400000:
                    break
            hs += list(picked.values())
        gen = itertools.chain(gen, (['__after__', x, y] for i, x in enumerate(hs)
                                    for j, y in enumerate(hs) if i != j))
    first_cases = []

    def feed():
        n = 0
        for c in _chunks(gen, chunk):
            if len(first_cases) < 3:
                first_cases.extend(c[:3 - len(first_cases)])
            gate = n < gate_n
            n += len(c)
            yield (c, gate)

    maxtasks = getattr(mod, 'MAXTASKS', None)
    if nproc <= 1 or os.environ.get('VT_SERIAL'):
        _init_worker(mod.__name__)
        for a in feed():
            agg.add(_work(a))
            if budget and time.time() - t0 > budget:
                capped = 'time budget %ss' % budget
                break
    else:
        with ctx.Pool(nproc, initializer=_init_worker,
                      initargs=(mod.__name__,),
                      maxtasksperchild=maxtasks) as pool:
            for out in pool.imap_unordered(_work, feed()):
                agg.add(out)
                if budget and time.time() - t0 > budget:
                    capped = 'time budget %ss' % budget
                    pool.terminate()
                    break
    if os.environ.get('VT_ENV_PASS') is not None:
        # child of an environment pass: hand the aggregation to the parent
        import pickle
        with open(os.environ['VT_ENV_PASS_OUT'], 'wb') as f:
            pickle.dump({'evals': agg.evals, 'cases': agg.cases,
                         'nt': len(agg.nt) + agg.nt_count,
                         'vclasses': agg.vclasses, 'harness': agg.harness}, f)
        return 0
    if hasattr(mod, 'finish'):
        for v in mod.finish(agg, tier) or ():
            agg.violations.append(v)
    _run_env_passes(mod, tier, seed, agg)
    agg.samples = first_cases
    return finalize(mod, tier, seed, agg, capped, time.time() - t0)


def _safe(s):
    return str(s).encode('utf-8', 'backslashreplace').decode('utf-8')


def finalize(mod, tier, seed, agg, capped, wall):
    pid = mod.ID
    if agg.harness:
        sys.stdout.write('HARNESS-ERROR property=%s (%d)\n%s\n'
                         % (pid, len(agg.harness), agg.harness[0]))
        sys.stdout.flush()
        write_evidence(mod, tier, seed, agg, capped, wall, len(agg.harness),
                       harness=True)
        return 2
    known = load_known()
    known_hit = collections.OrderedDict()
    fresh = []
    allv = [(v, n) for v, n in agg.vclasses.values()] + [(v, 1) for v in agg.violations]
    for v, n in allv:
        k = match_known(pid, v, known)
        if k is not None:
            key = canon([k['clause'], k.get('match')])
            known_hit.setdefault(key, [k, 0])[1] += n
            continue
        v['_n'] = n
        fresh.append(v)
    for k, n in known_hit.values():
        print('KNOWN-FINDING: property=%s %s [clause=%s, %d witnessing executions]'
              % (pid, k['what'], k['clause'], n))
    rc = 0
    for v in fresh[:25]:
        path = write_replay(pid, v)
        print('VIOLATION property=%s replay=%s' % (pid, path))
        print('  clause=%s sig=%s' % (v.get('clause'), canon(v.get('sig'))))
        d = _safe(v.get('detail') or '')
        if d:
            print('  ' + d[:1500].replace('\n', '\n  '))
        rc = 1
    if len(fresh) > 25:
        print('  ... and %d more violation classes' % (len(fresh) - 25))
    if fresh:
        byc = collections.Counter(v.get('clause') for v in fresh)
        print('  violation classes by clause: ' + ', '.join('%s=%d' % kv for kv in sorted(byc.items())))
        if os.environ.get('VT_ALLCLASSES'):
            for v in fresh:
                print('  CLASS %s %s' % (v.get('clause'), canon(v.get('sig'))))
    write_evidence(mod, tier, seed, agg, capped, wall, len(fresh))
    nt = len(agg.nt) + agg.nt_count
    print('%s %s: evaluations=%d distinct_nontrivial=%d states=%d transitions=%d '
          'outcomes=%d violations=%d known=%d %s wall=%.1fs'
          % (pid, tier, agg.evals, nt, len(agg.states), len(agg.transitions),
             len(agg.outcomes), len(fresh), len(known_hit),
             ('CAPPED(%s)' % capped) if capped else 'exhaustive', wall))
    if agg.counters:
        print('  counters: ' + ', '.join('%s=%d' % kv for kv in sorted(agg.counters.items())))
    return rc


def write_evidence(mod, tier, seed, agg, capped, wall, nviol, harness=False):
    pid = mod.ID
    cov = {
        'evaluations': agg.evals,
        'distinct_nontrivial': len(agg.nt) + agg.nt_count,
        'rule': mod.RULE,
        'samples': (agg.rich_samples[:3] or []) + list(agg.samples[:3]),
        'exhaustive': (capped is None) and not harness,
        'bound': getattr(mod, 'BOUND', {}).get(tier, ''),
        'cases': agg.cases,
        'distinct_outcomes': len(agg.outcomes),
        'counters': dict(agg.counters),
    }
    if not cov['samples']:
        cov['samples'] = ['(no cases)']
    if agg.states or mod.LEVEL == 'model_checking':
        cov['states'] = len(agg.states)
        cov['transitions'] = len(agg.transitions)
    for k, v in (getattr(mod, 'EXTRA_COVERAGE', None) or {}).items():
        cov[k] = v(agg) if callable(v) else v
    if capped:
        cov['cap'] = capped
    if harness:
        cov['harness_errors'] = len(agg.harness)
    ev = {
        'property_id': pid, 'tier': tier, 'seed': seed, 'level': mod.LEVEL,
        'coverage': cov, 'assumptions': list(getattr(mod, 'ASSUMPTIONS', [])),
        'wall_s': round(wall, 2), 'violations': nviol,
    }
    d = os.path.join(env.VERIF, 'evidence')
    os.makedirs(d, exist_ok=True)
    tmp = os.path.join(d, '.%s.json.tmp' % pid)
    with open(tmp, 'w') as f:
        json.dump(ev, f, indent=1, sort_keys=True, default=repr)
    os.replace(tmp, os.path.join(d, '%s.json' % pid))


def replay(mod, path):
    with open(path) as f:
        body = json.load(f)
    if body.get('env_pass') is not None and os.environ.get('VT_ENV_PASS') is None:
        # found in an environment pass: replay in the same kind of interpreter
        import subprocess
        ep = mod.ENV_PASSES[body['env_pass']]
        e = dict(os.environ)
        e.update(ep.get('env') or {})
        e['VT_ENV_PASS'] = str(body['env_pass'])
        return subprocess.call([env.PY] + list(ep.get('argv') or []) +
                               [os.path.join(env.LIB, 'vt', 'main.py'), mod.ID, '--replay', path], env=e)
    _init_worker(mod.__name__)
    res = run_one(mod, body['case']) or {}
    vs = res.get('violations') or []
    known = load_known()
    rc = 0
    for v in vs:
        k = match_known(mod.ID, v, known)
        if k:
            print('KNOWN-FINDING: property=%s %s' % (mod.ID, k['what']))
            continue
        print('VIOLATION property=%s replay=%s' % (mod.ID, path))
        print('  clause=%s sig=%s' % (v.get('clause'), canon(v.get('sig'))))
        print('  ' + _safe(v.get('detail') or '')[:3000].replace('\n', '\n  '))
        rc = 1
    if not vs:
        print('replay of %s: property held' % path)
    return rc
