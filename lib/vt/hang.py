"""RunHang: raised by the virtual sleep of runrt when an in-process run keeps
polling (see runrt._TimeShim), turned into a violation by explore."""


class RunHang(BaseException):
    pass
