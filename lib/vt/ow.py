"""Outcome worlds shared by C02 / C04 / C12: small layer shapes with test
slots, placements of non-pass scripts and layer faults, and the ground truth
(expected result events) computed from the spec and the *trace* only."""
import collections
import itertools
import os

from vt import monitors
from vt import worlds

# shape -> (layers bases-first, slots[(layer or None)], layer whose tearDown
# raises NotImplementedError or None)
SHAPES = {
    'U2':   ([], [None, None], None),
    'U1A2': ([('A', [])], [None, 'A', 'A'], None),
    'A1B2c': ([('A', []), ('B', ['A'])], ['A', 'B', 'B'], None),
    'A2B1i': ([('A', []), ('B', [])], ['A', 'A', 'B'], None),
    # A cannot be torn down -> B and C are resumed in children
    'N1B2C1': ([('A', []), ('B', []), ('C', [])], ['A', 'B', 'B', 'C'], 'A'),
    'A1B1C1d': ([('A', []), ('B', ['A']), ('C', ['A'])], ['A', 'B', 'C'], None),
}


def build(shape, scripts, lfaults=None, kind='c', extra=None):
    """scripts: list aligned with slots; lfaults: {layer: {hook: exc}}"""
    lay, slots, nie = SHAPES[shape]
    layers = []
    for n, bs in lay:
        L = {'n': n, 'b': list(bs), 'k': kind, 'h': list(worlds.HOOKS_SD)}
        f = dict((lfaults or {}).get(n) or {})
        if n == nie:
            f['tearDown'] = 'NIE'
        if f:
            L['f'] = f
        layers.append(L)
    tests = []
    for i, (sl, sc) in enumerate(zip(slots, scripts)):
        t = {'n': 'q%d' % i, 'l': sl}
        if isinstance(sc, dict):
            t.update(sc)
        else:
            t['s'] = sc
        tests.append(t)
    spec = {'layers': layers, 'tests': tests}
    if extra:
        spec.update(extra)
    return spec


BIG_SCRIPTS = ['pass'] * 14 + ['fail', 'error', 'skip_body', 'skip_dec', 'xfail', 'uxs', 'sub:1,1,0',
                               'body+teardown', 'setup_err', 'fail@1', 'sub_skip']


def big_spec(nlayers=12, ntests=40, nie=None, chain=3, scripts=None, bad_at=None):
    """A world that is not small: nlayers layers (the first `chain` ones
    derive from each other, the rest are independent) with ntests tests each
    and 30 unit tests; every outcome kind occurs many times, placed by a fixed
    arithmetic pattern."""
    layers = []
    for i in range(nlayers):
        L = {'n': 'L%02d' % i, 'b': (['L%02d' % (i - 1)] if 0 < i < chain else []), 'k': 'c',
             'h': list(worlds.HOOKS_SD)}
        if nie is not None and i == nie:
            L['f'] = {'tearDown': 'NIE'}
        layers.append(L)
    tests = []
    sl = scripts or BIG_SCRIPTS
    for i in range(30):
        tests.append({'n': 'u%03d' % i, 'l': None, 's': sl[(i * 11) % len(sl)]})
    for li in range(nlayers):
        for i in range(ntests):
            tests.append({'n': 't%02d_%03d' % (li, i), 'l': 'L%02d' % li,
                          's': sl[(i * 7 + li * 3) % len(sl)]})
    if bad_at is not None:
        tests[bad_at]['s'] = 'fail'
    return {'layers': layers, 'tests': tests}


def script_events(t, modname='vtw.tests', nth=1):
    """[(kind 'F'|'E'|'S', name)] produced by ONE execution of test t (the
    nth one in its process)."""
    s = t['s']
    if s.startswith('garbage:'):
        return []
    if '@' in s:
        s, k = s.split('@')
        if int(k) != nth:
            s = 'pass'
    if t.get('dt'):
        # str() of a doctest case
        from vt import worldrt
        dn = worldrt.doctest_name(t, modname)
        if t['dt'] == 'file':
            base = dn            # str(DocFileCase) is the file path
        else:
            base = '%s (%s)' % (dn.split('.')[-1], '.'.join(dn.split('.')[:-1]))
        return [('F', base)] if s == 'fail' else []
    mn = t.get('mn', t['n'])
    base = 'test_%s (%s.T_%s.test_%s)' % (mn, modname, t.get('shcls') or t['n'], mn)
    if 'strv' in t:
        base = t['strv']
    if s in ('pass', 'xfail', 'leave_replaced', 'warnfilter', 'swap_pass', 'settrace', 'chdir', 'rmcwd', 'close_out'):
        return []
    if s == 'sub_skip':
        return [('S', '%s (i=0)' % base)]
    if s == 'redir_sub_fail':
        return [('F', '%s (i=0)' % base)]
    if s in ('skip_dec', 'skip_cls', 'skip_setup', 'skip_body'):
        return [('S', base)]
    if s in ('fail', 'uxs', 'swap_fail', 'nested_fail', 'close_fail'):
        return [('F', base)]
    if s in ('error', 'setup_err', 'teardown_err', 'cleanup_err', 'sysexit'):
        return [('E', base)]
    if s == 'body+teardown':
        return [('E', base), ('E', base)]
    if s == 'fail+teardown':
        return [('F', base), ('E', base)]
    if s.startswith('sub:'):
        nf, ne, np_ = (int(x) for x in s[4:].split(','))
        out = []
        k = 0
        for i in range(nf):
            if 'subm' in t:
                out.append(('F', '%s [%s] (i=%d)' % (base, t['subm'], k)))
            else:
                out.append(('F', '%s (i=%d)' % (base, k)))
            k += 1
        for i in range(ne):
            out.append(('E', '%s (i=%d)' % (base, k)))
            k += 1
        return out
    raise KeyError(s)


class Truth:
    """What really happened, from the spec and the trace."""

    def __init__(self, spec, res):
        self.sv = sv = monitors.SpecView(spec)
        mod = sv.mod
        CUSTOM_NAMES.clear()
        CUSTOM_NAMES.update(t['strv'] for t in spec['tests'] if 'strv' in t)
        self.runs = collections.Counter()        # test id -> executions
        self.run_vpid = collections.defaultdict(set)
        self.fail = collections.Counter()        # name -> n
        self.err = collections.Counter()
        self.skip = 0
        self.layer_err = []                      # (vpid, layer, phase)
        self.per_layer_runs = collections.Counter()   # (layer) -> run> events
        nth = collections.Counter()
        for ev in res.trace:
            vpid = ev[0]
            if ev[1] == 't' and ev[3] == 'run>':
                tid = ev[2]
                self.runs[tid] += 1
                self.run_vpid[tid].add(vpid)
                t = sv.tests[tid]
                self.per_layer_runs[t.get('l')] += 1
                nth[(vpid, tid)] += 1
                for k, name in script_events(t, mod, nth[(vpid, tid)]):
                    if k == 'F':
                        self.fail[name] += 1
                    elif k == 'E':
                        self.err[name] += 1
                    else:
                        self.skip += 1
            elif ev[1] == 'L' and ev[4] == '!' and ev[5] != 'NIE' and ev[3] in ('setUp', 'tearDown'):
                self.layer_err.append((vpid, ev[2], ev[3]))
        self.bad = bool(self.fail or self.err or self.layer_err)

    def layer_err_ok(self, names):
        """names: the runner's 'Layer: X.phase' entries.  Every trace fault
        must be matched by exactly one entry naming the raising layer or (for
        setUp) a layer whose stack contains it."""
        sv = self.sv
        pre = 'Layer: %s.' % sv.mod
        got = []
        for n in names:
            if n.startswith(pre):
                lay, phase = n[len(pre):].rsplit('.', 1)
                got.append((lay, phase))
            else:
                return 'unparsable layer entry %r' % n
        want = [(l, p) for (_, l, p) in self.layer_err]
        if len(got) != len(want):
            return 'layer failure entries %s for faults %s' % (got, want)
        # greedy matching
        rest = list(got)
        for l, p in want:
            hit = None
            for g in rest:
                if g[1] != p:
                    continue
                if g[0] == l or (p == 'setUp' and g[0] in sv.by and l in sv.closure[g[0]]):
                    hit = g
                    break
            if hit is None:
                return 'fault %s.%s has no matching entry in %s' % (l, p, got)
            rest.remove(hit)
        return None


def asciify(name):
    """A name as it survives a child whose stderr is not UTF-8: every run of
    non-ASCII (or replacement) characters becomes one '?'."""
    import re
    return re.sub(r'[^\x00-\x7f]+', '?', name)


def placements(nslots, menu, maxk):
    """All ways to put <=maxk non-pass scripts from menu into slots."""
    for k in range(maxk + 1):
        for pos in itertools.combinations(range(nslots), k):
            for scs in itertools.product(menu, repeat=k):
                sl = ['pass'] * nslots
                for p, s in zip(pos, scs):
                    sl[p] = s
                yield sl


def layer_fault_choices(shape, maxf=1, rich=False):
    lay, _, nie = SHAPES[shape]
    names = [n for n, _ in lay if n != nie]
    menu = [('setUp', 'ValueError'), ('tearDown', 'ValueError'), ('tearDown', 'NIE')]
    if rich:
        menu += [('setUp', 'Chained'), ('tearDown', 'Context'),
                 ('setUp', 'BadStr'), ('tearDown', 'Group'),
                 ('setUp', 'Skip'), ('tearDown', 'Chain3'),
                 ('setUp', 'CauseCycle'), ('tearDown', 'ContextCycle'),
                 ('tearDown', 'SelfCause'), ('tearDown', 'CauseCycle'),
                 ('setUp', 'ContextCycle'),
                 # exceptions that cannot be put into a set / compared
                 ('setUp', 'Unhashable'), ('tearDown', 'Unhashable'),
                 ('setUp', 'EqRaises'), ('tearDown', 'UnhashableCause')]
    yield {}
    if maxf >= 1:
        for n in names:
            for hk, e in menu:
                yield {n: {hk: e}}
    if maxf >= 2:
        slots = [(n, hk, e) for n in names for hk, e in menu]
        for a, b in itertools.combinations(slots, 2):
            if (a[0], a[1]) == (b[0], b[1]):
                continue
            d = {}
            d.setdefault(a[0], {})[a[1]] = a[2]
            d.setdefault(b[0], {})[b[1]] = b[2]
            yield d


def _triple(line):
    try:
        a, b, c = map(int, line.strip().split())
        return (a, b, c)
    except ValueError:
        return None


def _real_header(lines):
    """Index of the header of the report the child wrote last: the report is
    header + nfail + nerr name lines reaching exactly to the end.  A name
    line may itself read like such a header (a test whose str() is "7 0 0",
    see CUSTOM_NAMES): it is not the header when an earlier line qualifies."""
    cands = []
    for i, ln in enumerate(lines):
        t = _triple(ln)
        if t is not None and min(t) >= 0 and i + 1 + t[1] + t[2] == len(lines):
            cands.append(i)
    if not cands:
        return None
    k = len(cands) - 1
    while k > 0 and lines[cands[k]].strip().decode('utf-8', 'replace') in CUSTOM_NAMES:
        k -= 1
    return cands[k]


def spoof_lines(stderr_bytes):
    """The lines of a child's stderr that parse as three integers and come
    before the header of the report the child wrote last."""
    lines = stderr_bytes.splitlines()
    real = _real_header(lines)
    if real is None:
        return []
    return [ln.strip() for ln in lines[:real] if _triple(ln) is not None]


def spoofed_header(stderr_bytes):
    """True when the first line of a child's stderr that parses as three
    integers is *not* the header of the report the child wrote last."""
    return bool(spoof_lines(stderr_bytes))


CUSTOM_NAMES = set()       # str() values of the current world's 'strv' tests


def split_names(names):
    """runner failure/error names -> (test names Counter, layer entries,
    subprocess entries, other)"""
    tests = collections.Counter()
    layers, subs, other = [], [], []
    for n in names:
        if n.startswith('Layer: '):
            layers.append(n)
        elif n.startswith('subprocess for ') or n.startswith('subprocess failed for '):
            subs.append(n)
        elif n.startswith('test_') or n.startswith('/vtw/test_') or n in CUSTOM_NAMES or n.split(' (i=')[0] in CUSTOM_NAMES:
            tests[n] += 1
        else:
            other.append(n)
    return tests, layers, subs, other


