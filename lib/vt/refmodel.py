"""Reference model of test selection, written from the property statements
(C03, C08, C09) — plain and boring on purpose."""
import re

UNIT = 'zope.testrunner.layer.UnitTests'


def spec_accept(patterns, name):
    pos = [p for p in patterns if not p.startswith('!')]
    neg = [p[1:] for p in patterns if p.startswith('!')]
    if not pos and neg:
        pos = ['.']
    return (any(re.search(p, name) for p in pos)
            and not any(re.search(p, name) for p in neg))


def declared(spec):
    """{test id: (layer full name, level)} — nearest declaration wins."""
    mod = spec.get('mod') or 'vtw.tests'
    tests = {t['n']: t for t in spec['tests']}
    out = {}

    def full(l):
        return UNIT if l is None else mod + '.' + l

    def leaf(tid, dl, dv):
        t = tests[tid]
        l, v = t.get('l'), t.get('lv')
        li = t.get('li')
        if li:
            if li.get('l') is not None:
                l = li['l']
            if li.get('lv') is not None:
                v = li['lv']
        out[tid] = (full(l if l is not None else dl), v if v is not None else dv)

    def walk(node, dl, dv):
        if 't' in node:
            leaf(node['t'], dl, dv)
            return
        l = node.get('l') if node.get('l') is not None else dl
        v = node.get('lv') if node.get('lv') is not None else dv
        for c in node['c']:
            walk(c, l, v)
    tree = spec.get('tree')
    if tree is None:
        for t in spec['tests']:
            leaf(t['n'], None, 1)
    else:
        for n in tree:
            walk(n, None, 1)
    return out


def parse_filters(argv):
    o = {'at': 1, 'only': None, 'all': False, 'u': False, 'f': False,
         'layer': [], 'test': [], 'repeat': 1}
    i = 0
    while i < len(argv):
        a = argv[i]
        if a.startswith('--at-level='):
            o['at'] = int(a.split('=', 1)[1])
            i += 1
        elif a == '--at-level':
            o['at'] = int(argv[i + 1])
            i += 2
        elif a == '--only-level':
            o['only'] = int(argv[i + 1])
            i += 2
        elif a == '--all':
            o['all'] = True
            i += 1
        elif a == '-u':
            o['u'] = True
            i += 1
        elif a == '-f':
            o['f'] = True
            i += 1
        elif a == '--layer':
            o['layer'].append(argv[i + 1])
            i += 2
        elif a == '-t':
            o['test'].append(argv[i + 1])
            i += 2
        elif a == '--repeat':
            o['repeat'] = int(argv[i + 1])
            i += 2
        else:
            i += 1
    if o['u'] and o['f']:
        o['u'] = o['f'] = False
    return o


def select(decl, argv, test_id=None):
    """{test id: layer} selected by the filter options in argv.
    test_id: tid -> str(test) used for -t patterns."""
    o = parse_filters(argv)
    out = {}
    for tid, (lay, lvl) in decl.items():
        if o['only'] is not None:
            ok = (lvl == o['only'])
        else:
            ok = o['all'] or o['at'] <= 0 or lvl <= o['at']
        if not ok:
            continue
        if o['test'] and not spec_accept(o['test'], test_id(tid) if test_id else tid):
            continue
        if o['u']:
            if lay != UNIT:
                continue
        else:
            if o['f'] and lay == UNIT:
                continue
            if o['layer'] and not spec_accept(o['layer'], lay):
                continue
        out[tid] = lay
    return out
