"""Controlled scheduler for the one concurrent corner of the runner: the real
``resume_tests`` (polling parent) + the real ``spawn_layer_in_subprocess``
(one worker thread and one stderr reader thread per layer) + layer
subprocesses.

Real ``threading.Thread`` objects carry the runner's code; a per-thread
semaphore baton lets exactly one run at a time, so an execution is a
deterministic function of the sequence of choices.  Child processes are
*virtual actors*: scripted sequences of writes to finite-capacity pipes,
each write / close / exit being one transition the scheduler may fire at any
time.  Names in ``zope.testrunner.runner``'s module namespace are substituted
from outside (threading, subprocess, time); the runner source is untouched.

Search: stateful depth-first search with prefix replay (live threads cannot be
copied), preemption-bounded.  A state is canonicalised from the real frames
(f_lasti + simple locals of every runner.py frame of every thread) plus pipes,
result objects, failure/error lists, bytes printed and the keep-alive queue;
two states are merged only if this whole tuple is equal.
"""
import hashlib
import io
import queue as _queue
import sys
import threading
import time as _time

_RUNNER_FILE = None


class Abort(BaseException):
    """Unwinds a parked thread when an execution is cut short."""


class StepTimeout(Exception):
    """A thread was given the baton and did not reach its next scheduling
    point (nor end) within STEP_TIMEOUT seconds of real time: it loops without
    any of the operations the scheduler owns (sleep, join, pipe reads ...)."""


STEP_TIMEOUT = 8.0


class Pipe:
    def __init__(self, cap):
        self.cap = cap          # bytes; a write larger than cap is allowed
        self.buf = b''          # when the pipe is empty (like a real pipe
        self.closed = False     # accepts partial writes; we keep it simple)

    def room(self, n):
        return (not self.buf) or (len(self.buf) + n <= self.cap)


class Child:
    """A virtual subprocess: script = [(op, arg)], op in out/err/close_out/
    close_err/exit/wait_started."""

    def __init__(self, sched, idx, layer, script, cap):
        self.s = sched
        self.idx = idx
        self.layer = layer
        self.script = list(script)
        self.pc = 0
        self.out = Pipe(cap)
        self.err = Pipe(cap)
        self.killed = False
        self.exited = False

    # actor protocol
    def finished(self):
        return self.exited or self.killed or self.pc >= len(self.script)

    def enabled(self):
        if self.finished():
            return False
        op, arg = self.script[self.pc]
        if op == 'out':
            return self.out.room(len(arg))
        if op == 'err':
            return self.err.room(len(arg))
        if op == 'wait_started':
            return arg in self.s.spawned_layers
        if op == 'wait_live':
            return self.s.live_children() >= arg
        return True

    def step(self):
        op, arg = self.script[self.pc]
        self.pc += 1
        if op == 'out':
            if not self.out.closed:
                self.out.buf += arg
        elif op == 'err':
            if not self.err.closed:
                self.err.buf += arg
        elif op == 'close_out':
            self.out.closed = True
        elif op == 'close_err':
            self.err.closed = True
        elif op == 'exit':
            self.out.closed = self.err.closed = True
            self.exited = True
        if self.pc >= len(self.script):
            self.out.closed = self.err.closed = True
            self.exited = True

    def kill(self):
        self.killed = True
        self.out.closed = self.err.closed = True

    def summary(self):
        return ('C', self.idx, self.pc, self.out.buf, self.out.closed,
                self.err.buf, self.err.closed, self.killed)


class TActor:
    """A real thread under the baton."""

    def __init__(self, sched, name, target, args):
        self.s = sched
        self.name = name
        self.target = target
        self.args = args
        self.sem = threading.Semaphore(0)
        self.done = False
        self.started = False
        self.exc = None
        self.kind = 'start'
        self.cond = None
        self.npoints = 0
        self.thread = threading.Thread(target=self._run, name='vt-' + name)
        self.thread.daemon = True

    def _run(self):
        self.sem.acquire()
        try:
            if self.s.aborting:
                return
            self.target(*self.args)
        except Abort:
            pass
        except BaseException as e:      # what a real thread does: print, die
            self.exc = e
            self.s.thread_deaths.append((self.name, type(e).__name__, str(e)[:200]))
        finally:
            self.done = True
            self.s.back.release()

    def finished(self):
        return self.done

    def enabled(self):
        if self.done or not self.started:
            return False
        c = self.cond
        return True if c is None else bool(c())

    def step(self):
        self.sem.release()
        if not self.s.back.acquire(timeout=STEP_TIMEOUT):
            raise StepTimeout(self.name)

    def summary(self):
        return ('T', self.name, self.kind, self.done)


class Sched:
    def __init__(self, scripts, cap=64, horizon=4000):
        self.scripts = scripts          # layer name -> child script or 'oserror'
        self.cap = cap
        self.horizon = horizon
        self.back = threading.Semaphore(0)
        self.actors = []                # creation order = canonical order
        self.children = []
        self.spawned_layers = []
        self.cur = None                 # actor running right now (a TActor)
        self.aborting = False
        self.thread_deaths = []
        self.results = []
        self.max_live = 0
        self.tls = threading.local()
        self.kills = 0
        self.nthreads = 0

    # ------------------------------------------------------ thread side
    def me(self):
        return getattr(self.tls, 'actor', None)

    def point(self, kind, cond=None):
        """Called by a thread *before* a visible operation: park until the
        scheduler picks this thread again (and cond holds)."""
        a = self.me()
        if a is None:
            return
        if self.aborting:
            raise Abort()
        a.kind = kind
        a.cond = cond
        a.npoints += 1
        self.back.release()
        a.sem.acquire()
        if self.aborting:
            raise Abort()
        a.cond = None

    def live_children(self):
        return sum(1 for c in self.children if not c.killed)

    # --------------------------------------------------------- shims
    def make_shims(self):
        s = self

        class Thread:
            def __init__(self, target=None, args=(), kwargs=None, name=None):
                s.nthreads += 1
                self._a = TActor(s, '%s%d' % (getattr(target, '__name__', 't')[:6], s.nthreads), self._wrap(target), args)
                self.daemon = False
                self.name = self._a.name

            def _wrap(self, target):
                a_holder = self

                def run(*args):
                    s.tls.actor = a_holder._a
                    return target(*args)
                return run

            def start(self):
                s.actors.append(self._a)
                self._a.started = True
                self._a.thread.start()
                s.point('started')

            def join(self, timeout=None):
                a = self._a
                s.point('join', lambda: a.done)

            def is_alive(self):
                return self._a.started and not self._a.done

        class ThreadingShim:
            def __getattr__(self, k):
                return getattr(threading, k)
        ts = ThreadingShim()
        ts.Thread = Thread

        class OutPipe:
            def __init__(self, child):
                self.c = child

            def readline(self):
                p = self.c.out
                s.point('readline', lambda: b'\n' in p.buf or p.closed)
                if b'\n' in p.buf:
                    i = p.buf.index(b'\n') + 1
                    line, p.buf = p.buf[:i], p.buf[i:]
                    return line
                line, p.buf = p.buf, b''
                return line

            def close(self):
                pass

        class ErrPipe:
            def __init__(self, child):
                self.c = child

            def read(self):
                p = self.c.err
                chunks = []
                while True:
                    s.point('read', lambda: bool(p.buf) or p.closed)
                    if p.buf:
                        chunks.append(p.buf)
                        p.buf = b''
                        continue
                    if p.closed:
                        break
                return b''.join(chunks)

            def close(self):
                pass

        class Popen:
            def __init__(self, args, **kw):
                layer = args[args.index('--resume-layer') + 1]
                s.point('spawn')
                script = s.scripts[layer]
                if script == 'oserror':
                    raise OSError(11, 'Resource temporarily unavailable (injected)')
                c = Child(s, len(s.children), layer, script, s.cap)
                s.children.append(c)
                s.actors.append(c)
                s.spawned_layers.append(layer)
                s.max_live = max(s.max_live, s.live_children())
                self._c = c
                self.stdout = OutPipe(c)
                self.stderr = ErrPipe(c)
                self.stdin = None

            def kill(self):
                s.point('kill')
                if not self._c.killed:
                    s.kills += 1
                self._c.kill()

            def communicate(self, *a, **k):
                return (b'', b'')

        class SubprocessShim:
            PIPE = -1

            def __getattr__(self, k):
                import subprocess
                return getattr(subprocess, k)
        ss = SubprocessShim()
        ss.Popen = Popen

        class TimeShim:
            @staticmethod
            def sleep(x):
                s.point('sleep')

            def __getattr__(self, k):
                return getattr(_time, k)
        return ts, ss, TimeShim()

    # ------------------------------------------------------ scheduler side
    def state(self, extra):
        global _RUNNER_FILE
        frames = sys._current_frames()
        parts = []
        for a in self.actors:
            if isinstance(a, TActor):
                # (a finished thread's ident may already belong to a new one)
                fr = frames.get(a.thread.ident) if (a.thread.ident and not a.done) else None
                fd = []
                while fr is not None:
                    co = fr.f_code
                    if co.co_filename == _RUNNER_FILE:
                        loc = []
                        for k, v in sorted(fr.f_locals.items()):
                            if isinstance(v, (int, str, bytes, bool, type(None))):
                                loc.append((k, v))
                            elif isinstance(v, (list, tuple)):
                                if k == 'running_threads':
                                    loc.append((k, tuple(t.name for t in v)))
                                else:
                                    loc.append((k, len(v)))
                            elif k == 'current_result':
                                loc.append((k, getattr(v, 'layer_name', None)))
                        fd.append((co.co_name, fr.f_lasti, tuple(loc)))
                    fr = fr.f_back
                parts.append(a.summary() + (tuple(fd),))
            else:
                parts.append(a.summary())
        res = []
        for r in self.results:
            res.append((r.layer_name, tuple(r.stdout), bool(r.done), r.num_ran))
        return (tuple(parts), tuple(res)) + tuple(extra)

    def abort(self):
        self.aborting = True
        for a in self.actors:
            if isinstance(a, TActor) and a.started and not a.done:
                a.sem.release()
        for a in self.actors:
            if isinstance(a, TActor) and a.started:
                a.thread.join(5)


def h(state):
    return hashlib.blake2b(repr(state).encode('utf-8', 'backslashreplace'),
                           digest_size=10).digest()
