"""Drive the real ``zope.testrunner.runner.Runner`` on a world.

In-process mode
    ``run_world(spec, argv)`` builds the world in memory and calls the real
    ``Runner(found_suites=...).run()`` with stdout/stderr captured in
    ``TextIOWrapper(BytesIO)`` objects that have *no* ``getvalue`` (a StringIO
    would take a different path through ``_restoreStdStreams``).

    Layer subprocesses are **atomic in-process children**: the module globals
    ``runner.subprocess`` / ``runner.threading`` / ``runner.time`` are
    substituted so that the real ``resume_tests`` and the real
    ``spawn_layer_in_subprocess`` run unmodified, but ``Popen(args)`` executes a
    second real ``Runner`` on a *fresh build of the same world* with exactly the
    argument vector the parent computed (``--resume-layer ...``), collects the
    bytes it writes to stdout / its original stderr and offers them as the
    pipes; ``Thread.start()`` runs its target inline.  This is one legal
    schedule (every child finishes before the parent polls again); the other
    schedules are the business of ``sched``.  ``tests/conformance`` binds the
    in-process child to real child processes byte for byte.

CLI mode
    ``run_cli(spec, argv)`` materialises the world on /dev/shm and runs
    ``python -m zope.testrunner --path ...`` for real.
"""
import gc
import io
import os
import re
import subprocess as _real_subprocess
import sys
import threading as _real_threading
import time as _real_time
import traceback

from . import env
from . import worldrt

_R = None        # zope.testrunner.runner, imported lazily
_F = None        # zope.testrunner.find


def _mods():
    global _R, _F
    if _R is None:
        import zope.testrunner.find as F
        import zope.testrunner.runner as R
        _R, _F = R, F
    return _R, _F


class KeepBytesIO(io.BytesIO):
    final = None

    def close(self):
        if self.final is None:
            self.final = self.getvalue()
        super().close()


class Capture(io.TextIOWrapper):
    """A text stream over bytes, like a real stdout; deliberately without
    ``getvalue``."""

    def __init__(self, encoding='utf-8', errors='backslashreplace'):
        super().__init__(KeepBytesIO(), encoding=encoding,
                         errors=errors, newline='\n',
                         write_through=True)
        self._kb = self.buffer
        self.own = []      # [start, end) byte ranges written through the
        #                    text layer (the process's own prints); bytes
        #                    relayed from children go to .buffer directly

    def write(self, s):
        kb = self._kb
        p0 = kb.tell()
        n = super().write(s)
        p1 = kb.tell()
        if p1 > p0:
            own = self.own
            if own and own[-1][1] == p0:
                own[-1][1] = p1
            else:
                own.append([p0, p1])
        return n

    def own_masked(self):
        """The captured bytes with everything *not* written through the text
        layer replaced by newlines (same offsets)."""
        v = self.value()
        m = bytearray(b'\n' * len(v))
        for a, b in self.own:
            m[a:b] = v[a:b]
        return bytes(m)

    def value(self):
        kb = self._kb
        if kb.final is not None:
            return kb.final
        try:
            self.flush()
        except ValueError:
            pass
        return kb.getvalue()

    def pos(self):
        kb = self._kb
        if kb.final is not None:
            return len(kb.final)
        return kb.tell()


class Result:
    __slots__ = ('out', 'out_own', 'err', 'failed', 'escaped', 'escaped_tb', 'ran',
                 'failures', 'errors', 'skipped', 'import_errors', 'trace',
                 'children', 'resumed', 'state_before', 'state_after',
                 'streams_after', 'spawned', 'kills', 'live_max', 'text',
                 'do_run_tests', 'rc', 'wall', 'seed_line')

    def __init__(self):
        for s in self.__slots__:
            setattr(self, s, None)


# ------------------------------------------------------------------ shims

class _InlineThread:
    def __init__(self, target=None, args=(), kwargs=None, name=None):
        self._t = target
        self._a = args
        self._k = kwargs or {}
        self.daemon = False
        self._alive = False
        self.name = name or 'inline'
        self.exc = None

    def start(self):
        ctx = _CTX[-1]
        ctx.inline_depth += 1
        try:
            self._t(*self._a, **self._k)
        except BaseException as e:   # a real thread would print and die
            self.exc = e
            ctx.thread_deaths.append((type(e).__name__, str(e)[:200]))
        finally:
            ctx.inline_depth -= 1

    def join(self, timeout=None):
        pass

    def is_alive(self):
        return False


class _ThreadingShim:
    Thread = _InlineThread

    def __getattr__(self, k):
        return getattr(_real_threading, k)


from .hang import RunHang    # noqa: E402  (the run polls without end: with
# inline threads and atomic children every poll iteration of an in-process run
# is deterministic, and a run needs a few iterations per layer; raised from the
# virtual sleep after SLEEP_CAP iterations, re-raised by run_world after it has
# cleaned up, turned into a violation "run_does_not_terminate" by explore)


SLEEP_CAP = 3000


class _TimeShim:
    """runner.time: sleep is a no-op; the clock can be warped forward by the
    world (a layer or test that "takes" minutes without taking them)."""
    offset = 0.0
    sleeps = 0

    @staticmethod
    def sleep(x):
        _TimeShim.sleeps += 1
        if _TimeShim.sleeps > SLEEP_CAP:
            raise RunHang('the run called time.sleep %d times (its polling loop does not end)' % _TimeShim.sleeps)

    def time(self):
        return _real_time.time() + _TimeShim.offset

    @staticmethod
    def warp(seconds):
        _TimeShim.offset += seconds

    def __getattr__(self, k):
        return getattr(_real_time, k)


class _FakePopen:
    def __init__(self, args, **kw):
        ctx = _CTX[-1]
        ctx.spawned.append(list(args))
        hook = ctx.child_hook
        layer = args[args.index('--resume-layer') + 1]
        act = hook(layer, args) if hook else None
        if act and act[0] == 'oserror':
            if len(act) > 1:
                import os as _os
                raise OSError(act[1], _os.strerror(act[1]) + ' (injected)')
            raise OSError(12, 'Cannot allocate memory (injected)')
        vpid = None
        if act and act[0] == 'bytes':
            out, err = act[1], act[2]
        else:
            out, err = ctx.run_child(args)
            vpid = ctx.nchild
            if act and act[0] == 'mangle':
                out, err = act[1](out, err)
        ctx.children.append({'layer': layer, 'args': list(args),
                             'stdout': out, 'stderr': err,
                             'vpid': vpid})
        self.stdout = io.BytesIO(out)
        self.stderr = io.BytesIO(err)
        self.stdin = None
        self.killed = False
        ctx.live += 1
        ctx.live_max = max(ctx.live_max, ctx.live)

    def kill(self):
        ctx = _CTX[-1]
        if not self.killed:
            self.killed = True
            ctx.kills += 1
            ctx.live -= 1

    def communicate(self, *a, **k):
        return (b'', b'')

    def wait(self, *a, **k):
        return 0

    def poll(self):
        return 0


class _SubprocessShim:
    Popen = _FakePopen
    PIPE = _real_subprocess.PIPE

    def __getattr__(self, k):
        return getattr(_real_subprocess, k)


_CTX = []
CUR_OUT = None   # root capture of the (virtual) process currently running
CUR_ERR = None


class Ctx:
    child_stderr_encoding = None

    def __init__(self, spec, child_hook=None, warnings=None, child_env=None):
        self.spec = spec
        self.child_hook = child_hook
        self.children = []
        self.spawned = []
        self.kills = 0
        self.live = 0
        self.live_max = 0
        self.nchild = 0
        self.inline_depth = 0
        self.thread_deaths = []
        self.warnings = warnings

    def run_child(self, args):
        R, F = _mods()
        self.nchild += 1
        saved = (sys.stdout, sys.stderr, sys.stdin, dict(F._layer_name_cache),
                 worldrt.VPID)
        cout = Capture()
        cerr = Capture(self.child_stderr_encoding, 'replace') if self.child_stderr_encoding else Capture()
        built = worldrt.build(self.spec)
        prev = worldrt.install(built)
        sys.stdout, sys.stderr = cout, cerr
        worldrt.VPID = self.nchild
        global CUR_OUT, CUR_ERR
        saved_cur = (CUR_OUT, CUR_ERR)
        CUR_OUT, CUR_ERR = cout, cerr
        try:
            try:
                # what zope.testrunner.run() does in a real child
                r = R.Runner(None, list(args[1:]), found_suites=built.suites,
                             script_parts=['vt-script'], cwd=None,
                             warnings=None)
                r.run()
            except SystemExit:
                pass
            except BaseException:
                # the interpreter prints the traceback to sys.stderr, which
                # SubProcess.global_setup pointed at stdout
                try:
                    traceback.print_exc(file=sys.stderr)
                except Exception:
                    pass
        finally:
            sys.stdout, sys.stderr, sys.stdin = saved[0], saved[1], saved[2]
            F._layer_name_cache.clear()
            F._layer_name_cache.update(saved[3])
            worldrt.VPID = saved[4]
            worldrt.uninstall(prev)
            CUR_OUT, CUR_ERR = saved_cur
        return cout.value(), cerr.value()


_TIME_RE = re.compile(r'\d+\.\d{3} (seconds|s)\b|\d+ minutes \d+\.\d{3} seconds')


def normalize(text):
    return _TIME_RE.sub('N.NNN seconds', text)


_BYSTANDER = None


def _bystander(cmd):
    """Ask a long-lived thread of this process (started before any run) for
    the trace / profile functions active IN THAT THREAD, or make it drop them."""
    global _BYSTANDER
    import queue
    if _BYSTANDER is None or not _BYSTANDER[0].is_alive():
        req, rep = queue.Queue(), queue.Queue()

        def loop():
            while True:
                c = req.get()
                if c == 'reset':
                    sys.settrace(None)
                    sys.setprofile(None)
                rep.put((repr(sys.gettrace()), repr(sys.getprofile())))
        th = _real_threading.Thread(target=loop, name='vt-bystander', daemon=True)
        th.start()
        _BYSTANDER = (th, req, rep)
    _BYSTANDER[1].put(cmd)
    return _BYSTANDER[2].get(timeout=30)


def _monitoring_tools():
    mon = getattr(sys, 'monitoring', None)
    if mon is None:
        return None
    return tuple(mon.get_tool(i) for i in range(6))


def global_state():
    import traceback as tb
    import warnings
    by = _bystander('get')
    return {
        # a thread that was alive before the run and still is afterwards
        'other_thread_trace': by[0],
        'other_thread_profile': by[1],
        'monitoring_tools': _monitoring_tools(),
        'gc_threshold': gc.get_threshold(),
        'gc_debug': gc.get_debug(),
        'tb_format_exception': id(tb.format_exception),
        'tb_print_exception': id(tb.print_exception),
        'sys_settrace_func': id(sys.settrace),
        'sys_trace': repr(sys.gettrace()),
        'sys_profile': repr(sys.getprofile()),
        'thr_trace': repr(getattr(_real_threading, '_trace_hook', None)),
        'thr_profile': repr(getattr(_real_threading, '_profile_hook', None)),
        'warn_filters': repr(warnings.filters),
        'stdin': id(sys.stdin),
    }


def run_world(spec, argv, child_hook=None, warnings=None, probe=True,
              want_state=False, stdin=None, runner_kw=None, defaults=None,
              child_stderr_encoding=None, parent_encoding=None):
    """Run the real Runner in-process on ``spec`` with argument vector
    ``['vt-script'] + argv``.  Returns a Result.  ``parent_encoding`` =
    (encoding, errors) of the process's sys.stdout / sys.stderr (default
    utf-8 / backslashreplace)."""
    R, F = _mods()
    res = Result()
    ctx = Ctx(spec, child_hook, warnings)
    ctx.child_stderr_encoding = child_stderr_encoding
    _CTX.append(ctx)
    built = worldrt.build(spec)
    prev_mod = worldrt.install(built)
    out, err = (Capture(*parent_encoding), Capture(*parent_encoding)) if parent_encoding else (Capture(), Capture())
    saved_streams = (sys.stdout, sys.stderr, sys.stdin)
    saved_syspath = list(sys.path)
    saved_names = (R.subprocess, R.threading, R.time)
    import logging
    root_logger = logging.getLogger()
    saved_handlers = root_logger.handlers[:]
    saved_trace = (worldrt.TRACE, worldrt.VPID, worldrt.PROBE)
    worldrt.TRACE = trace = []
    worldrt.VPID = 0
    saved_exec = worldrt.EXEC
    worldrt.EXEC = {}
    global CUR_OUT, CUR_ERR
    saved_cur = (CUR_OUT, CUR_ERR)
    CUR_OUT, CUR_ERR = out, err
    if probe:
        def _probe():
            return (sys.stdout is CUR_OUT, sys.stderr is CUR_ERR,
                    CUR_OUT.pos(), CUR_ERR.pos())
        worldrt.PROBE = _probe
    else:
        worldrt.PROBE = None
    saved_fd2 = worldrt.FD2
    def _fd2(text):
        if isinstance(text, bytes):
            CUR_ERR.flush()
            CUR_ERR.buffer.write(text)
        else:
            CUR_ERR.write(text)
    worldrt.FD2 = _fd2
    R.subprocess = _SubprocessShim()
    R.threading = _ThreadingShim()
    R.time = _TimeShim()
    _TimeShim.offset = 0.0
    saved_sleeps = _TimeShim.sleeps
    _TimeShim.sleeps = 0
    saved_warp = worldrt.WARP
    worldrt.WARP = _TimeShim.warp
    if want_state:
        res.state_before = global_state()
        import traceback as _tb
        import warnings as _w
        hard = (gc.get_threshold(), gc.get_debug(), _tb.format_exception,
                _tb.print_exception, sys.settrace, list(_w.filters),
                sys.gettrace(), sys.getprofile())
    sys.stdout, sys.stderr = out, err
    if stdin is not None:
        sys.stdin = stdin
    runner = None
    t0 = _real_time.time()
    saved_cwd = os.getcwd()
    try:
        try:
            kw = dict(runner_kw or {})
            runner = R.Runner(list(defaults) if defaults is not None else None, ['vt-script'] + list(argv),
                              found_suites=built.suites,
                              script_parts=['vt-script'], cwd=None,
                              warnings=warnings, **kw)
            runner.run()
        except BaseException as e:
            res.escaped = type(e).__name__
            res.escaped_tb = traceback.format_exc()[-3000:]
    finally:
        res.streams_after = (sys.stdout is out, sys.stderr is err)
        os.chdir(saved_cwd)
        sys.stdout, sys.stderr, sys.stdin = saved_streams
        if want_state:
            res.state_after = global_state()
            # put everything back so that a leak found in this execution
            # cannot change the next one (each case must start clean)
            gc.set_threshold(*hard[0])
            gc.set_debug(hard[1])
            _tb.format_exception, _tb.print_exception = hard[2], hard[3]
            sys.settrace = hard[4]
            _w.filters[:] = hard[5]
            if hasattr(_w, '_filters_mutated'):
                _w._filters_mutated()
            sys.settrace(hard[6])
            sys.setprofile(hard[7])
            _real_threading.settrace(None)
            _real_threading.setprofile(None)
            _bystander('reset')
            mon = getattr(sys, 'monitoring', None)
            if mon is not None and res.state_before['monitoring_tools'] != res.state_after['monitoring_tools']:
                for i, (a, b) in enumerate(zip(res.state_before['monitoring_tools'], res.state_after['monitoring_tools'])):
                    if a is None and b is not None:
                        try:
                            mon.free_tool_id(i)
                        except Exception:
                            pass
        R.subprocess, R.threading, R.time = saved_names
        sys.path[:] = saved_syspath
        # the Logging feature adds a NullHandler per run and never removes it
        root_logger.handlers[:] = saved_handlers
        worldrt.TRACE, worldrt.VPID, worldrt.PROBE = saved_trace
        worldrt.EXEC = saved_exec
        worldrt.WARP = saved_warp
        worldrt.FD2 = saved_fd2
        worldrt.uninstall(prev_mod)
        CUR_OUT, CUR_ERR = saved_cur
        _CTX.pop()
        _TimeShim.sleeps = saved_sleeps
    if res.escaped == 'RunHang':
        raise RunHang('argv %s: %s' % (list(argv), res.escaped_tb[-1500:]))
    res.wall = _real_time.time() - t0
    res.out = out.value()
    res.out_own = out.own_masked()
    res.err = err.value()
    res.text = res.out.decode('utf-8', 'backslashreplace')
    res.trace = trace
    res.children = ctx.children
    res.spawned = ctx.spawned
    res.kills = ctx.kills
    res.live_max = ctx.live_max
    if runner is not None:
        res.failed = runner.failed
        res.ran = runner.ran
        res.do_run_tests = runner.do_run_tests
        try:
            res.failures = [_name(x) for x in runner.failures]
            res.errors = [_name(x) for x in runner.errors]
        except Exception as e:  # noqa
            res.failures = res.failures or ['<unreadable %r>' % (e,)]
            res.errors = res.errors or []
        res.skipped = len(runner.skipped)
        res.import_errors = len(runner.import_errors)
    res.resumed = [c['layer'] for c in ctx.children]
    return res


def _name(x):
    try:
        t = x[0]
    except Exception:
        return '<bare %s>' % (x,)
    return str(t)


# --------------------------------------------------------------------- CLI

def run_cli(spec, argv, timeout=120, extra_env=None, extra_files=None,
            keep=False, cwd=None, barrier=True, relpath=False):
    root = env.scratch('vtcli')
    res = Result()
    try:
        worldrt.write_disk(spec, root, extra_files)
        tr = os.path.join(root, 'trace.jsonl')
        os.makedirs(os.path.join(root, 'barrier'))
        e = env.child_env({'VT_TRACE': tr})
        if barrier:
            e['VT_BARRIER'] = os.path.join(root, 'barrier')
        else:
            e.pop('VT_BARRIER', None)
        if extra_env:
            e.update(extra_env)
        # relpath: the search path is given relative to the start directory
        cmd = [env.PY, '-m', 'zope.testrunner', '--path', '.' if relpath else root] + list(argv)
        t0 = _real_time.time()
        # own session: on a timeout (or when the runner leaves children
        # behind) the whole process group is killed, grandchildren included
        import signal
        pp = _real_subprocess.Popen(cmd, env=e, stdout=_real_subprocess.PIPE,
                                    stderr=_real_subprocess.PIPE,
                                    stdin=_real_subprocess.DEVNULL,
                                    cwd=cwd or root, start_new_session=True)
        try:
            o, er = pp.communicate(timeout=timeout)
            res.rc = pp.returncode
            res.out = o
            res.err = er
        except _real_subprocess.TimeoutExpired:
            res.rc = 'timeout'
            try:
                os.killpg(pp.pid, signal.SIGKILL)
            except OSError:
                pass
            try:
                o, er = pp.communicate(timeout=10)
            except Exception:
                o, er = b'', b''
            res.out = o or b''
            res.err = er or b''
        finally:
            try:
                os.killpg(pp.pid, signal.SIGKILL)
            except OSError:
                pass
        res.wall = _real_time.time() - t0
        res.text = res.out.decode('utf-8', 'backslashreplace')
        res.trace = worldrt.read_trace(tr)
        res.failed = (res.rc != 0)
    finally:
        if not keep:
            env.rmtree(root)
    return res


# ------------------------------------------------------- output parsing

# (the colour formatter writes ", N skipped" where the plain one writes
# "and N skipped"; feed it text that went through strip_ansi)
RAN_RE = re.compile(r'^  Ran (\d+) tests with (\d+) failures, (\d+) errors'
                    r'(?:,| and) (\d+) skipped in ', re.M)
TOTAL_RE = re.compile(r'^Total: (\d+) tests, (\d+) failures, (\d+) errors'
                      r'(?:,| and) (\d+) skipped in ', re.M)
ANSI_RE = re.compile(r'\x1b\[[0-9;]*m')


def strip_ansi(text):
    return ANSI_RE.sub('', text)
HDR_RE = re.compile(r'^Running (\S+) tests:$', re.M)


def parse_sections(text):
    """Split runner output at 'Running <layer> tests:' headers."""
    secs = []
    pos = [(m.start(), m.group(1)) for m in HDR_RE.finditer(text)]
    for i, (st, name) in enumerate(pos):
        en = pos[i + 1][0] if i + 1 < len(pos) else len(text)
        secs.append((name, text[st:en]))
    return secs


def parse_name_list(text, header):
    """Names under 'Tests with failures:' / 'Tests with errors:'."""
    m = re.search(r'^%s\n((?:   .*\n?)*)' % re.escape(header), text, re.M)
    if not m:
        return None
    # (split at LF only: a test id may contain FF, VT, U+2028 ...)
    return [ln[3:] for ln in m.group(1).split('\n') if ln]


def run_plain(argv, roots=(), want_state=False, defaults=None):
    """Run the real Runner in-process with *real discovery* (no found_suites)
    on directory trees.  Modules imported from ``roots`` and sys.path entries
    added by the run are removed afterwards."""
    R, F = _mods()
    res = Result()
    out, err = Capture(), Capture()
    saved_streams = (sys.stdout, sys.stderr, sys.stdin)
    saved_path = list(sys.path)
    saved_mods = set(sys.modules)
    import logging
    root_logger = logging.getLogger()
    saved_handlers = root_logger.handlers[:]
    global CUR_OUT, CUR_ERR
    saved_cur = (CUR_OUT, CUR_ERR)
    CUR_OUT, CUR_ERR = out, err
    saved_trace = (worldrt.TRACE, worldrt.VPID, worldrt.PROBE)
    worldrt.TRACE = trace = []
    worldrt.VPID = 0
    saved_exec = worldrt.EXEC
    worldrt.EXEC = {}
    worldrt.PROBE = None
    sys.stdout, sys.stderr = out, err
    runner = None
    try:
        try:
            runner = R.Runner(list(defaults) if defaults is not None else None, ['vt-script'] + list(argv),
                              script_parts=['vt-script'], cwd=None)
            runner.run()
        except BaseException as e:
            res.escaped = type(e).__name__
            res.escaped_tb = traceback.format_exc()[-3000:]
    finally:
        sys.stdout, sys.stderr, sys.stdin = saved_streams
        sys.path[:] = saved_path
        for m in list(sys.modules):
            if m not in saved_mods:
                mod = sys.modules.get(m)
                f = getattr(mod, '__file__', None) or ''
                try:
                    pl = [str(x) for x in (getattr(mod, '__path__', None) or ())]
                except Exception:      # namespace path of a vanished parent
                    pl = list(roots)
                if (any(f.startswith(r) for r in roots) or
                        any(x.startswith(r) for x in pl for r in roots) or
                        not f):
                    del sys.modules[m]
        import importlib
        importlib.invalidate_caches()
        for r in roots:
            for k in list(sys.path_importer_cache):
                if k.startswith(r):
                    del sys.path_importer_cache[k]
        root_logger.handlers[:] = saved_handlers
        worldrt.TRACE, worldrt.VPID, worldrt.PROBE = saved_trace
        worldrt.EXEC = saved_exec
        CUR_OUT, CUR_ERR = saved_cur
    res.out = out.value()
    res.err = err.value()
    res.text = res.out.decode('utf-8', 'backslashreplace')
    res.trace = trace
    if runner is not None:
        res.failed = runner.failed
        res.ran = runner.ran
        res.import_errors = len(runner.import_errors)
        try:
            res.failures = [_name(x) for x in runner.failures]
            res.errors = [_name(x) for x in runner.errors]
        except Exception:
            pass
    return res
