# Repairs the ``zope`` namespace for /venv without touching /venv or /repo.
#
# The editable install's ``-nspkg.pth`` pins ``zope.__path__`` to
# ``['/repo/src/zope']`` so ``zope.interface`` (site-packages) is unimportable.
# This file travels via PYTHONPATH, so it also reaches the layer subprocesses
# that the runner spawns.
import os
import sys


def _fix():
    repo_src = os.environ.get('VT_REPO_SRC', '/repo/src')
    if repo_src not in sys.path:
        sys.path.insert(0, repo_src)
    else:
        # make sure the working tree wins
        sys.path.remove(repo_src)
        sys.path.insert(0, repo_src)
    try:
        import zope
    except ImportError:
        return
    path = list(getattr(zope, '__path__', []))
    first = os.path.join(repo_src, 'zope')
    new = [first] if os.path.isdir(first) else []
    for p in path:
        if p not in new and '/repo/src' not in p:
            new.append(p)
    for entry in sys.path:
        cand = os.path.join(entry, 'zope')
        if os.path.isdir(cand) and cand not in new:
            # never mix in another checkout of zope.testrunner
            if os.path.isdir(os.path.join(cand, 'testrunner')) and cand != first:
                continue
            new.append(cand)
    try:
        zope.__path__ = new
    except Exception:
        pass


_fix()
del _fix
